//! Deterministic image contents from a `Content` / `AlphaPat` descriptor.
use crate::px::*;
use crate::rng::Rng;
use crate::spec::*;

fn alpha_max<P: Px>() -> f64 {
    match P::kind() {
        CompKind::U8 => 255.0,
        CompKind::U16 => 65535.0,
        CompKind::F32 => 1.0,
        CompKind::I32 => i32::MAX as f64,
    }
}

/// Fill `w*h` pixels.
pub fn make_pixels<P: Px>(w: u32, h: u32, c: &Content, alpha: Option<&AlphaPat>) -> Vec<P> {
    let (w, h) = (w as usize, h as usize);
    let n = w * h;
    let nc = P::NC;
    let mut px = vec![P::default(); n];
    let mut rng = Rng::for_case(c.seed, "content", c.kind as u64);
    let (ix, iy, ic) = if n > 0 { (rng.below(w as u64) as usize, rng.below(h as u64) as usize, rng.below(nc as u64) as usize) } else { (0, 0, 0) };
    {
        let comps = P::components_mut(&mut px);
        for y in 0..h {
            for x in 0..w {
                for ch in 0..nc {
                    let i = (y * w + x) * nc + ch;
                    let v: P::C = match c.kind {
                        0 => {
                            if P::kind() == CompKind::F32 {
                                P::C::from_f64(c.a + (c.b - c.a) * rng.unit())
                            } else {
                                P::C::from_bits(rng.next())
                            }
                        }
                        1 => P::C::from_f64(c.a),
                        2 => P::C::from_f64(if (x + ch) % 2 == 0 { c.a } else { c.b }),
                        3 => P::C::from_f64(if (y + ch) % 2 == 0 { c.a } else { c.b }),
                        4 => P::C::from_f64(if (x + y + ch) % 2 == 0 { c.a } else { c.b }),
                        5 => P::C::from_f64(if x == ix && y == iy && (ch == ic || rng.chance(1, 2)) { c.b } else { c.a }),
                        6 => {
                            let t = if w + h > 2 { (x + y) as f64 / (w + h - 2) as f64 } else { 0.0 };
                            P::C::from_f64(c.a + (c.b - c.a) * t)
                        }
                        7 => P::C::from_f64(if rng.chance(1, 20) { c.b } else { c.a }),
                        // any bit pattern (floats: NaN, infinities, denormals included)
                        9 => P::C::from_bits(rng.next()),
                        _ => P::C::from_f64(c.a + (c.b - c.a) * rng.unit()),
                    };
                    comps[i] = v;
                }
            }
        }
    }
    if let (Some(ap), true) = (alpha, P::HAS_ALPHA) {
        apply_alpha::<P>(&mut px, w, h, ap);
    }
    px
}

pub fn apply_alpha<P: Px>(px: &mut [P], w: usize, h: usize, ap: &AlphaPat) {
    let nc = P::NC;
    let amax = alpha_max::<P>();
    let mut rng = Rng::for_case(ap.seed, "alpha", ap.kind as u64);
    let period = 2 + rng.below(5) as usize;
    let phase = rng.below(period as u64) as usize;
    let (zx, zy) = if w * h > 0 { (rng.below(w as u64) as usize, rng.below(h as u64) as usize) } else { (0, 0) };
    let split = if w > 0 { rng.below(w as u64 + 1) as usize } else { 0 };
    let comps = P::components_mut(px);
    let mut run_left = 0usize;
    let mut run_val = 0.0f64;
    for y in 0..h {
        for x in 0..w {
            let i = (y * w + x) * nc + nc - 1;
            let rnd = |rng: &mut Rng| -> f64 {
                if P::kind() == CompKind::F32 {
                    // keep away from denormal alphas, where c*a/a is not stable in any implementation
                    let u = rng.unit();
                    if u < 0.05 { 1.0 } else { 0.01 + 0.99 * u }
                } else {
                    (rng.below(amax as u64) + 1) as f64
                }
            };
            let a = match ap.kind {
                0 => {
                    if rng.chance(1, 6) { 0.0 } else { rnd(&mut rng) }
                }
                1 => amax,
                2 => if (x + phase) % period == 0 { 0.0 } else { rnd(&mut rng) },
                3 => if (y + phase) % period == 0 { 0.0 } else { rnd(&mut rng) },
                4 => if rng.chance(35, 100) { 0.0 } else { rnd(&mut rng) },
                5 => if x == 0 || y == 0 || x + 1 == w || y + 1 == h { 0.0 } else { rnd(&mut rng) },
                6 => 0.0,
                7 => if x == zx && y == zy { 0.0 } else { rnd(&mut rng) },
                8 => {
                    if P::kind() == CompKind::F32 { [0.0, 0.001, 0.01, 0.5][rng.below(4) as usize] } else { rng.below(4) as f64 }
                }
                9 => if x < split { 0.0 } else { amax },
                10 => if x < split { amax } else { 0.0 },
                12 => {
                    // blocks of 2/4/8/16 pixels, each wholly transparent, wholly opaque or mixed, starting at a random phase
                    // (kernels that test a whole vector of alphas at once see uniform and half-uniform groups)
                    let b = [2usize, 4, 8, 16][period % 4];
                    let blk = (x + phase) / b;
                    let half = ((x + phase) % b) * 2 / b;
                    match mix64(ap.seed ^ (blk as u64).wrapping_mul(0x9E37_79B9) ^ ((y as u64) << 40)) % 8 {
                        0 | 1 => 0.0,
                        2 | 3 => amax,
                        4 => if half == 0 { amax } else { rnd(&mut rng) },
                        5 => if half == 0 { 0.0 } else { rnd(&mut rng) },
                        6 => if half == 0 { rnd(&mut rng) } else { amax },
                        _ => rnd(&mut rng),
                    }
                }
                _ => {
                    // runs of opaque / transparent / partial pixels of random length 1..12 along each row
                    if run_left == 0 {
                        run_left = 1 + rng.below(12) as usize;
                        run_val = match rng.below(3) { 0 => 0.0, 1 => amax, _ => rnd(&mut rng) };
                    }
                    run_left -= 1;
                    run_val
                }
            };
            comps[i] = P::C::from_f64(a);
        }
    }
}

fn mix64(x: u64) -> u64 {
    crate::rng::mix(x)
}

/// Planes of f64 (one per component), row-major.
pub fn planes<P: Px>(px: &[P]) -> Vec<Vec<f64>> {
    let nc = P::NC;
    let comps = P::components(px);
    let n = px.len();
    (0..nc).map(|c| (0..n).map(|i| comps[i * nc + c].to_f64()).collect()).collect()
}
