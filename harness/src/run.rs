//! Shard runner: argument parsing, case announcement (crash attribution), panic capture,
//! statistics and the result file read by `/verif/check`.
use crate::rng::{hash_bytes, Rng};
use serde_json::{json, Map, Value};
use std::collections::{BTreeMap, BTreeSet, HashSet};
use std::io::{Seek, SeekFrom, Write};
use std::panic::{catch_unwind, AssertUnwindSafe};
use std::path::PathBuf;

#[derive(Clone, Copy, Debug, PartialEq, Eq)]
pub enum Tier {
    Quick,
    Thorough,
}

pub struct Viol {
    pub kind: String,
    pub detail: String,
    /// facts used to match against known_findings.json
    pub signature: Value,
}

impl Viol {
    pub fn new(kind: &str, detail: String) -> Viol {
        Viol { kind: kind.to_string(), detail, signature: json!({ "kind": kind }) }
    }
    pub fn sig(mut self, sig: Value) -> Viol {
        let mut m = sig.as_object().cloned().unwrap_or_default();
        m.insert("kind".into(), json!(self.kind));
        self.signature = Value::Object(m);
        self
    }
}

#[derive(Default)]
pub struct Stats {
    pub evaluations: u64,
    pub nontrivial: HashSet<u64>,
    pub counters: BTreeMap<String, u64>,
    pub sets: BTreeMap<String, BTreeSet<String>>,
    pub maxima: BTreeMap<String, f64>,
    pub samples: Vec<Value>,
    pub violations: Vec<Value>,
    pub notes: Vec<String>,
}

impl Stats {
    pub fn count(&mut self, key: &str, n: u64) {
        *self.counters.entry(key.to_string()).or_insert(0) += n;
    }
    pub fn seen(&mut self, key: &str, v: impl ToString) {
        let s = self.sets.entry(key.to_string()).or_default();
        if s.len() < 4096 {
            s.insert(v.to_string());
        }
    }
    pub fn max(&mut self, key: &str, v: f64) {
        let e = self.maxima.entry(key.to_string()).or_insert(f64::NEG_INFINITY);
        if v > *e {
            *e = v;
        }
    }
    pub fn nontrivial(&mut self, desc: &Value) {
        self.nontrivial.insert(hash_bytes(desc.to_string().as_bytes()));
    }
}

pub struct Ctx {
    pub prop: String,
    pub sub: String,
    pub tier: Tier,
    pub seed: u64,
    pub shard: u64,
    pub nshards: u64,
    pub flavour: String,
    pub n: u64,
    pub only: Option<u64>,
    pub replay_case: Option<Value>,
    pub out: PathBuf,
    pub stats: Stats,
    pub max_viol: usize,
    last: Option<std::fs::File>,
    pub is_miri: bool,
    /// `--pool N`: the library's rayon code runs in a global pool of N threads (the monitor itself is unchanged: the
    /// result of every operation is specified independently of the thread count, so every oracle applies as it is)
    pub pool: usize,
}

fn arg_value(args: &[String], name: &str) -> Option<String> {
    args.iter().position(|a| a == name).and_then(|i| args.get(i + 1).cloned())
}

impl Ctx {
    pub fn from_args() -> Ctx {
        let args: Vec<String> = std::env::args().collect();
        let prop = arg_value(&args, "--prop").expect("--prop");
        let sub = arg_value(&args, "--sub").unwrap_or_default();
        let tier = match arg_value(&args, "--tier").as_deref() {
            Some("thorough") => Tier::Thorough,
            _ => Tier::Quick,
        };
        let seed = arg_value(&args, "--seed").and_then(|s| s.parse().ok()).unwrap_or(1);
        let (shard, nshards) = arg_value(&args, "--shard")
            .map(|s| {
                let (a, b) = s.split_once('/').expect("--shard i/n");
                (a.parse().unwrap(), b.parse().unwrap())
            })
            .unwrap_or((0, 1));
        let flavour = arg_value(&args, "--flavour").unwrap_or_else(|| "rel".into());
        let n = arg_value(&args, "--n").and_then(|s| s.parse().ok()).unwrap_or(1000);
        let only = arg_value(&args, "--only").and_then(|s| s.parse().ok());
        let pool: usize = arg_value(&args, "--pool").and_then(|s| s.parse().ok()).unwrap_or(0);
        if pool > 0 {
            #[cfg(feature = "rayon")]
            {
                if let Err(e) = rayon::ThreadPoolBuilder::new().num_threads(pool).build_global() {
                    println!("INCONCLUSIVE cannot build the global pool of {} threads: {:?}", pool, e);
                    std::process::exit(2);
                }
            }
            #[cfg(not(feature = "rayon"))]
            {
                println!("INCONCLUSIVE --pool needs a build with the rayon feature");
                std::process::exit(2);
            }
        }
        let replay_case = arg_value(&args, "--case").map(|s| serde_json::from_str(&s).expect("--case json"));
        let out = PathBuf::from(arg_value(&args, "--out").unwrap_or_else(|| "/dev/null".into()));
        let last = if out.as_os_str() != "/dev/null" {
            let mut p = out.clone().into_os_string();
            p.push(".last");
            std::fs::File::create(p).ok()
        } else {
            None
        };
        Ctx {
            prop,
            sub,
            tier,
            seed,
            shard,
            nshards,
            flavour,
            n,
            only,
            replay_case,
            out,
            stats: Stats::default(),
            max_viol: 20,
            last,
            is_miri: cfg!(miri),
            pool,
        }
    }

    pub fn quick(&self) -> bool {
        self.tier == Tier::Quick
    }

    pub fn rng(&self, domain: &str, idx: u64) -> Rng {
        Rng::for_case(self.seed, domain, idx)
    }

    /// Does this shard own case `idx`?
    pub fn mine(&self, idx: u64) -> bool {
        match self.only {
            Some(o) => o == idx,
            None => idx % self.nshards == self.shard,
        }
    }

    /// Record the case that is about to run, so that a crash can be attributed to it.
    pub fn announce(&mut self, idx: u64, desc: &Value) {
        if let Some(f) = self.last.as_mut() {
            let s = json!({"idx": idx, "sub": self.sub, "case": desc}).to_string();
            let _ = f.seek(SeekFrom::Start(0));
            let _ = f.write_all(s.as_bytes());
            let _ = f.write_all(b"\n");
            let _ = f.set_len(s.len() as u64 + 1);
        }
    }

    pub fn violation(&mut self, idx: u64, desc: &Value, v: Viol) {
        self.stats.count("violations_total", 1);
        if self.stats.violations.len() < self.max_viol {
            self.stats.violations.push(json!({
                "idx": idx, "sub": self.sub, "kind": v.kind, "detail": v.detail, "signature": v.signature, "case": desc,
                "flavour": self.flavour,
            }));
        }
    }

    /// Run one case under `catch_unwind`. `exec` returns violations it found.
    /// A panic is returned as `Err(message)`.
    pub fn guarded<T>(&mut self, f: impl FnOnce(&mut Stats) -> T) -> Result<T, String> {
        let stats = &mut self.stats;
        match catch_unwind(AssertUnwindSafe(|| f(stats))) {
            Ok(v) => Ok(v),
            Err(e) => {
                let msg = if let Some(s) = e.downcast_ref::<&str>() {
                    s.to_string()
                } else if let Some(s) = e.downcast_ref::<String>() {
                    s.clone()
                } else {
                    "panic".to_string()
                };
                Err(format!("{} @ {}", msg, take_panic_location()))
            }
        }
    }

    /// Standard loop: for every owned index build the case, announce, execute, collect.
    /// `exec` pushes violations into the vector it is given.
    pub fn drive<C>(
        &mut self,
        total: u64,
        mut gen: impl FnMut(&Ctx, u64) -> Option<C>,
        describe: impl Fn(&C) -> Value,
        mut exec: impl FnMut(&C, &mut Stats, &mut Vec<Viol>),
    ) {
        install_panic_hook();
        let (mut idx, step) = match self.only {
            Some(o) => (o, u64::MAX),
            None => (self.shard, self.nshards),
        };
        while idx < total {
            let cur = idx;
            idx = idx.saturating_add(step);
            let idx = cur;
            let Some(case) = gen(self, idx) else { continue };
            let desc = describe(&case);
            self.announce(idx, &desc);
            self.stats.evaluations += 1;
            if self.stats.samples.len() < 3 {
                self.stats.samples.push(json!({"idx": idx, "case": desc.clone()}));
            }
            let mut viols = Vec::new();
            let r = self.guarded(|stats| exec(&case, stats, &mut viols));
            if let Err(msg) = r {
                if msg.contains(crate::pool::RESOURCE_MARK) {
                    // the host could not provide a resource (threads): not a verdict on the library
                    self.stats.count("resource_failures", 1);
                    if self.stats.notes.len() < 4 {
                        self.stats.notes.push(format!("case {}: {}", idx, msg));
                    }
                    viols.clear();
                    continue;
                }
                let loc = msg.rsplit(" @ ").next().unwrap_or("").to_string();
                viols.push(Viol::new("panic", msg).sig(json!({ "location": loc })));
            }
            for v in viols {
                self.violation(idx, &desc, v);
            }
        }
    }

    pub fn finish(mut self) {
        // hashes of the distinct non-trivial cases: one u64 LE each
        let mut hp = self.out.clone().into_os_string();
        hp.push(".hashes");
        if self.out.as_os_str() != "/dev/null" {
            let mut bytes = Vec::with_capacity(self.stats.nontrivial.len() * 8);
            for h in &self.stats.nontrivial {
                bytes.extend_from_slice(&h.to_le_bytes());
            }
            let _ = std::fs::write(&hp, bytes);
        }
        let mut m = Map::new();
        m.insert("prop".into(), json!(self.prop));
        m.insert("sub".into(), json!(self.sub));
        m.insert("tier".into(), json!(if self.tier == Tier::Quick { "quick" } else { "thorough" }));
        m.insert("seed".into(), json!(self.seed));
        m.insert("shard".into(), json!([self.shard, self.nshards]));
        m.insert("flavour".into(), json!(self.flavour));
        m.insert("evaluations".into(), json!(self.stats.evaluations));
        m.insert("distinct_nontrivial".into(), json!(self.stats.nontrivial.len()));
        m.insert("counters".into(), json!(self.stats.counters));
        m.insert("sets".into(), json!(self.stats.sets));
        m.insert(
            "maxima".into(),
            Value::Object(self.stats.maxima.iter().map(|(k, v)| (k.clone(), if v.is_finite() { json!(v) } else { json!(v.to_string()) })).collect()),
        );
        m.insert("samples".into(), Value::Array(std::mem::take(&mut self.stats.samples)));
        m.insert("violations".into(), Value::Array(std::mem::take(&mut self.stats.violations)));
        m.insert("notes".into(), json!(self.stats.notes));
        m.insert("complete".into(), json!(true));
        let s = serde_json::to_string(&Value::Object(m)).unwrap();
        if let Some(n) = self.stats.counters.get("resource_failures") {
            // read by ./check: the shard is inconclusive
            println!("INCONCLUSIVE {} cases could not run for lack of host resources (thread creation): {:?}", n, self.stats.notes.first());
        }
        if self.out.as_os_str() == "/dev/null" {
            println!("{}", s);
        } else {
            std::fs::write(&self.out, s).expect("write result file");
        }
    }
}

// ---- panic location capture (the default hook prints to stderr; we also want the location in the verdict)

use std::sync::Mutex;
static PANIC_LOC: Mutex<String> = Mutex::new(String::new());

pub fn install_panic_hook() {
    static ONCE: std::sync::Once = std::sync::Once::new();
    ONCE.call_once(|| {
        std::panic::set_hook(Box::new(|info| {
            let loc = info.location().map(|l| format!("{}:{}", l.file(), l.line())).unwrap_or_default();
            eprintln!("panic: {} ({})", info, std::thread::current().name().unwrap_or("?"));
            if let Ok(mut g) = PANIC_LOC.lock() {
                *g = loc;
            }
        }));
    });
}

pub fn take_panic_location() -> String {
    PANIC_LOC.lock().map(|mut g| std::mem::take(&mut *g)).unwrap_or_default()
}
