//! Backing stores with sentinels and the container kinds of the library built over them.
//!
//! A `Backing` owns one heap allocation whose length is exactly `pw*ph + tail` pixels, so that for
//! `tail == 0` the last byte of the allocation is the last byte of the parent image (AddressSanitizer's
//! red zone and Miri's allocation bound sit flush against the final row).
use crate::px::*;
use crate::rng::mix;
use fast_image_resize as fr;
use fr::images::*;
use fr::{ImageView, ResizeError, ResizeOptions, Resizer};
use serde_json::{json, Value};

#[derive(Clone, Copy, Debug, PartialEq, Eq, Hash)]
pub enum SrcKind {
    /// TypedImageRef::new
    Ref,
    /// TypedImageRef::from_buffer
    RefBuf,
    /// TypedImage::from_pixels_slice used as a source
    Typed,
    /// ImageRef::new + Resizer::resize
    DynRef,
    /// Image::from_slice_u8 + Resizer::resize
    DynImage,
    /// Image::from_vec_u8 (owned) + Resizer::resize
    DynVec,
    /// TypedCroppedImage::from_ref over a TypedImageRef parent
    Crop,
    /// TypedCroppedImage::new (parent by value)
    CropOwned,
    /// CroppedImage::new over an ImageRef parent + Resizer::resize
    DynCrop,
    /// TypedCroppedImage over a TypedCroppedImage over a TypedImageRef
    Nested,
    /// `UserView`: a view type defined in the harness with the trait's provided methods left at their defaults
    User,
    /// a *mutable* cropped view in the source role: TypedCroppedImageMut::from_ref over a TypedImage parent (copy of the backing)
    CropMutSrc,
    /// CroppedImageMut::new over an Image parent (copy of the backing), as the source of the dynamic entry point
    DynCropMutSrc,
}

#[derive(Clone, Copy, Debug, PartialEq, Eq, Hash)]
pub enum DstKind {
    /// TypedImage::from_pixels_slice
    Typed,
    /// TypedImage::from_buffer
    TypedBuf,
    /// Image::from_slice_u8 + dynamic entry point
    DynImage,
    /// TypedCroppedImageMut::from_ref over a TypedImage parent
    CropMut,
    /// TypedCroppedImageMut::new (parent by value)
    CropMutOwned,
    /// CroppedImageMut::new over an Image parent + dynamic entry point
    DynCropMut,
    /// TypedCroppedImageMut over TypedCroppedImageMut over TypedImage
    NestedMut,
    /// `UserViewMut`: user-defined mutable view (default split_by_*_mut through UnsafeImageMut)
    UserMut,
}

pub const SRC_KINDS: [SrcKind; 13] = [
    SrcKind::Ref,
    SrcKind::RefBuf,
    SrcKind::Typed,
    SrcKind::DynRef,
    SrcKind::DynImage,
    SrcKind::DynVec,
    SrcKind::Crop,
    SrcKind::CropOwned,
    SrcKind::DynCrop,
    SrcKind::Nested,
    SrcKind::User,
    SrcKind::CropMutSrc,
    SrcKind::DynCropMutSrc,
];
pub const DST_KINDS: [DstKind; 8] = [
    DstKind::Typed,
    DstKind::TypedBuf,
    DstKind::DynImage,
    DstKind::CropMut,
    DstKind::CropMutOwned,
    DstKind::DynCropMut,
    DstKind::NestedMut,
    DstKind::UserMut,
];

impl SrcKind {
    pub fn is_crop(self) -> bool {
        matches!(self, SrcKind::Crop | SrcKind::CropOwned | SrcKind::DynCrop | SrcKind::Nested | SrcKind::User | SrcKind::CropMutSrc | SrcKind::DynCropMutSrc)
    }
    pub fn is_dyn(self) -> bool {
        matches!(self, SrcKind::DynRef | SrcKind::DynImage | SrcKind::DynVec | SrcKind::DynCrop | SrcKind::DynCropMutSrc)
    }
}
impl DstKind {
    pub fn is_crop(self) -> bool {
        matches!(self, DstKind::CropMut | DstKind::CropMutOwned | DstKind::DynCropMut | DstKind::NestedMut | DstKind::UserMut)
    }
    pub fn is_dyn(self) -> bool {
        matches!(self, DstKind::DynImage | DstKind::DynCropMut)
    }
}

/// The (source, destination) pairs that are compiled: every source kind with a plain typed destination, a
/// plain reference source with every destination kind, and the all-special pairs that matter.
pub fn pair_supported(s: SrcKind, d: DstKind) -> bool {
    use DstKind as D;
    use SrcKind as S;
    if s.is_dyn() != d.is_dyn() {
        return false;
    }
    if s.is_dyn() {
        return matches!((s, d), (S::DynRef, _) | (_, D::DynImage));
    }
    matches!(
        (s, d),
        (_, D::Typed) | (S::Ref, _) | (S::Crop, D::CropMut) | (S::CropOwned, D::CropMutOwned) | (S::Nested, D::NestedMut) | (S::RefBuf, D::TypedBuf) | (S::User, D::UserMut)
    )
}

/// Where a `w x h` view lies inside its parent allocation.
#[derive(Clone, Copy, Debug, PartialEq, Eq)]
pub struct Place {
    pub pw: u32,
    pub ph: u32,
    pub left: u32,
    pub top: u32,
    /// extra pixels after the last parent row (a partial row of spare capacity)
    pub tail: u32,
}

impl Place {
    pub fn exact(w: u32, h: u32) -> Place {
        Place { pw: w, ph: h, left: 0, top: 0, tail: 0 }
    }
    pub fn to_json(&self) -> Value {
        json!({"parent": [self.pw, self.ph], "at": [self.left, self.top], "tail": self.tail})
    }
}

/// Pattern flag: the bitwise complement of the base pattern (so the two patterns differ in every component).
pub const COMPLEMENT: u64 = 1 << 63;
/// Pattern flag: float sentinels are NaN / +inf / -inf (a kernel that loads a neighbour of the view and cancels it with a
/// zero coefficient turns them into NaN results); integer sentinels are unaffected.
pub const NONFINITE: u64 = 1 << 62;

pub fn sentinel_at<P: Px>(pattern: u64, i: usize) -> P {
    let compl = pattern & COMPLEMENT != 0;
    let nonfinite = pattern & NONFINITE != 0;
    let base = pattern & !COMPLEMENT & !NONFINITE;
    let c: Vec<P::C> = (0..P::NC)
        .map(|ch| {
            let r = mix(base ^ ((i * P::NC + ch) as u64).wrapping_mul(0x9E37_79B9_7F4A_7C15));
            match P::kind() {
                // finite floats of moderate size
                CompKind::F32 if nonfinite => P::C::from_bits([0x7fc0_0000u64, 0x7f80_0000, 0xff80_0000, 0x7fc0_0001][(r % 4) as usize]),
                CompKind::F32 => P::C::from_f64(((r % 2_000_001) as f64 - 1_000_000.0) * 0.125 + if compl { 0.0625 } else { 0.0 }),
                _ => P::C::from_bits(if compl { !r } else { r }),
            }
        })
        .collect();
    P::from_comps(&c)
}

pub struct Backing<P: Px> {
    pub buf: Vec<P>,
    pub place: Place,
    pub w: u32,
    pub h: u32,
}

impl<P: Px> Backing<P> {
    /// Everything filled with the sentinel pattern.
    pub fn new(place: Place, w: u32, h: u32, pattern: u64) -> Backing<P> {
        assert!(place.left as u64 + w as u64 <= place.pw as u64 && place.top as u64 + h as u64 <= place.ph as u64);
        let n = place.pw as usize * place.ph as usize + place.tail as usize;
        let mut buf = Vec::with_capacity(n);
        for i in 0..n {
            buf.push(sentinel_at::<P>(pattern, i));
        }
        Backing { buf, place, w, h }
    }
    pub fn index(&self, x: u32, y: u32) -> usize {
        (self.place.top + y) as usize * self.place.pw as usize + (self.place.left + x) as usize
    }
    /// Write the `w*h` pixels of the view.
    pub fn put(&mut self, px: &[P]) {
        assert_eq!(px.len(), self.w as usize * self.h as usize);
        for y in 0..self.h {
            for x in 0..self.w {
                let i = self.index(x, y);
                self.buf[i] = px[(y * self.w + x) as usize];
            }
        }
    }
    pub fn view_pixels(&self) -> Vec<P> {
        let mut v = Vec::with_capacity(self.w as usize * self.h as usize);
        for y in 0..self.h {
            for x in 0..self.w {
                v.push(self.buf[self.index(x, y)]);
            }
        }
        v
    }
    pub fn inside(&self, i: usize) -> bool {
        let pw = self.place.pw as usize;
        if pw == 0 || i >= pw * self.place.ph as usize {
            return false;
        }
        let (x, y) = ((i % pw) as u32, (i / pw) as u32);
        x >= self.place.left && x < self.place.left + self.w && y >= self.place.top && y < self.place.top + self.h
    }
    /// First pixel index outside the view rectangle that no longer holds the sentinel.
    pub fn first_outside_change(&self, pattern: u64) -> Option<usize> {
        (0..self.buf.len()).find(|&i| !self.inside(i) && P::bits_of(&[self.buf[i]]) != P::bits_of(&[sentinel_at::<P>(pattern, i)]))
    }
    pub fn bytes(&self) -> &[u8] {
        unsafe { std::slice::from_raw_parts(self.buf.as_ptr() as *const u8, self.buf.len() * std::mem::size_of::<P>()) }
    }
    pub fn bytes_mut(&mut self) -> &mut [u8] {
        unsafe { std::slice::from_raw_parts_mut(self.buf.as_mut_ptr() as *mut u8, self.buf.len() * std::mem::size_of::<P>()) }
    }
    fn outer(&self) -> (u32, u32, u32, u32, u32, u32) {
        // outer crop for nested views: the view plus half of each margin; returns (l1,t1,w1,h1,l2,t2)
        let p = self.place;
        let ml = p.left / 2;
        let mt = p.top / 2;
        let mr = (p.pw - p.left - self.w) / 2;
        let mb = (p.ph - p.top - self.h) / 2;
        (p.left - ml, p.top - mt, self.w + ml + mr, self.h + mt + mb, ml, mt)
    }
}

/// Resize through the given container kinds. The view dimensions are those of the backings.
pub fn resize_through<P: Px>(
    r: &mut Resizer,
    sb: &Backing<P>,
    sk: SrcKind,
    db: &mut Backing<P>,
    dk: DstKind,
    opts: &ResizeOptions,
) -> Result<(), ResizeError> {
    use DstKind as D;
    use SrcKind as S;
    assert!(pair_supported(sk, dk), "container pair {:?}/{:?} is not compiled", sk, dk);
    let (sp, dp) = (sb.place, db.place);
    let (sw, sh, dw, dh) = (sb.w, sb.h, db.w, db.h);
    if !sk.is_crop() {
        assert!(sp.left == 0 && sp.top == 0 && sp.pw == sw);
    }
    if !dk.is_crop() {
        assert!(dp.left == 0 && dp.top == 0 && dp.pw == dw);
    }
    let (dl1, dt1, dw1, dh1, dl2, dt2) = db.outer();
    let (sl1, st1, sw1, sh1, sl2, st2) = sb.outer();
    macro_rules! with_dst_typed {
        ($s:expr) => {{
            let s = $s;
            match dk {
                D::Typed => {
                    let mut d = TypedImage::<P>::from_pixels_slice(dw, dh, &mut db.buf).expect("dst Typed");
                    r.resize_typed(&s, &mut d, opts)
                }
                D::TypedBuf => {
                    let mut d = TypedImage::<P>::from_buffer(dw, dh, db.bytes_mut()).expect("dst TypedBuf");
                    r.resize_typed(&s, &mut d, opts)
                }
                D::CropMut => {
                    let mut parent = TypedImage::<P>::from_pixels_slice(dp.pw, dp.ph, &mut db.buf).expect("dst parent");
                    let mut d = TypedCroppedImageMut::from_ref(&mut parent, dp.left, dp.top, dw, dh).expect("dst CropMut");
                    r.resize_typed(&s, &mut d, opts)
                }
                D::CropMutOwned => {
                    let parent = TypedImage::<P>::from_pixels_slice(dp.pw, dp.ph, &mut db.buf).expect("dst parent");
                    let mut d = TypedCroppedImageMut::new(parent, dp.left, dp.top, dw, dh).expect("dst CropMutOwned");
                    r.resize_typed(&s, &mut d, opts)
                }
                D::NestedMut => {
                    let parent = TypedImage::<P>::from_pixels_slice(dp.pw, dp.ph, &mut db.buf).expect("dst parent");
                    let outer = TypedCroppedImageMut::new(parent, dl1, dt1, dw1, dh1).expect("dst outer");
                    let mut d = TypedCroppedImageMut::new(outer, dl2, dt2, dw, dh).expect("dst NestedMut");
                    r.resize_typed(&s, &mut d, opts)
                }
                D::UserMut => {
                    let mut d = UserViewMut::new(&mut db.buf, dp.pw, dp.left, dp.top, dw, dh).padded(user_pad());
                    r.resize_typed(&s, &mut d, opts)
                }
                _ => unreachable!(),
            }
        }};
    }
    macro_rules! to_typed_dst {
        ($s:expr) => {{
            let s = $s;
            let mut d = TypedImage::<P>::from_pixels_slice(dw, dh, &mut db.buf).expect("dst Typed");
            r.resize_typed(&s, &mut d, opts)
        }};
    }
    match sk {
        S::Ref => with_dst_typed!(TypedImageRef::<P>::new(sw, sh, &sb.buf).expect("src Ref")),
        S::RefBuf => {
            let s = TypedImageRef::<P>::from_buffer(sw, sh, sb.bytes()).expect("src RefBuf");
            match dk {
                D::TypedBuf => {
                    let mut d = TypedImage::<P>::from_buffer(dw, dh, db.bytes_mut()).expect("dst TypedBuf");
                    r.resize_typed(&s, &mut d, opts)
                }
                _ => to_typed_dst!(s),
            }
        }
        S::Typed => {
            let mut copy = sb.buf.clone();
            let s = TypedImage::<P>::from_pixels_slice(sw, sh, &mut copy).expect("src Typed");
            to_typed_dst!(s)
        }
        S::Crop => {
            let parent = TypedImageRef::<P>::new(sp.pw, sp.ph, &sb.buf).expect("src parent");
            let s = TypedCroppedImage::from_ref(&parent, sp.left, sp.top, sw, sh).expect("src Crop");
            match dk {
                D::CropMut => {
                    let mut dparent = TypedImage::<P>::from_pixels_slice(dp.pw, dp.ph, &mut db.buf).expect("dst parent");
                    let mut d = TypedCroppedImageMut::from_ref(&mut dparent, dp.left, dp.top, dw, dh).expect("dst CropMut");
                    r.resize_typed(&s, &mut d, opts)
                }
                _ => to_typed_dst!(s),
            }
        }
        S::CropOwned => {
            let parent = TypedImageRef::<P>::new(sp.pw, sp.ph, &sb.buf).expect("src parent");
            let s = TypedCroppedImage::new(parent, sp.left, sp.top, sw, sh).expect("src CropOwned");
            match dk {
                D::CropMutOwned => {
                    let dparent = TypedImage::<P>::from_pixels_slice(dp.pw, dp.ph, &mut db.buf).expect("dst parent");
                    let mut d = TypedCroppedImageMut::new(dparent, dp.left, dp.top, dw, dh).expect("dst CropMutOwned");
                    r.resize_typed(&s, &mut d, opts)
                }
                _ => to_typed_dst!(s),
            }
        }
        S::Nested => {
            let parent = TypedImageRef::<P>::new(sp.pw, sp.ph, &sb.buf).expect("src parent");
            let outer = TypedCroppedImage::new(parent, sl1, st1, sw1, sh1).expect("src outer");
            let s = TypedCroppedImage::from_ref(&outer, sl2, st2, sw, sh).expect("src Nested");
            match dk {
                D::NestedMut => {
                    let dparent = TypedImage::<P>::from_pixels_slice(dp.pw, dp.ph, &mut db.buf).expect("dst parent");
                    let douter = TypedCroppedImageMut::new(dparent, dl1, dt1, dw1, dh1).expect("dst outer");
                    let mut d = TypedCroppedImageMut::new(douter, dl2, dt2, dw, dh).expect("dst NestedMut");
                    r.resize_typed(&s, &mut d, opts)
                }
                _ => to_typed_dst!(s),
            }
        }
        S::CropMutSrc => {
            let mut copy = sb.buf.clone();
            let mut parent = TypedImage::<P>::from_pixels_slice(sp.pw, sp.ph, &mut copy).expect("src parent");
            let s = TypedCroppedImageMut::from_ref(&mut parent, sp.left, sp.top, sw, sh).expect("src CropMutSrc");
            to_typed_dst!(s)
        }
        S::User => {
            let s = UserView::new(&sb.buf, sp.pw, sp.left, sp.top, sw, sh).padded(user_pad());
            match dk {
                D::UserMut => {
                    let mut d = UserViewMut::new(&mut db.buf, dp.pw, dp.left, dp.top, dw, dh).padded(user_pad());
                    r.resize_typed(&s, &mut d, opts)
                }
                _ => to_typed_dst!(s),
            }
        }
        // ---- dynamic entry point
        S::DynRef | S::DynImage | S::DynVec | S::DynCrop | S::DynCropMutSrc => {
            macro_rules! with_dyn_dst {
                ($s:expr) => {{
                    let s = $s;
                    match dk {
                        D::DynImage => {
                            let mut d = Image::from_slice_u8(dw, dh, db.bytes_mut(), P::PT).expect("dst DynImage");
                            r.resize(&s, &mut d, opts)
                        }
                        D::DynCropMut => {
                            let mut dparent = Image::from_slice_u8(dp.pw, dp.ph, db.bytes_mut(), P::PT).expect("dst dyn parent");
                            let mut d = CroppedImageMut::new(&mut dparent, dp.left, dp.top, dw, dh).expect("dst DynCropMut");
                            r.resize(&s, &mut d, opts)
                        }
                        _ => unreachable!(),
                    }
                }};
            }
            match sk {
                S::DynRef => with_dyn_dst!(ImageRef::new(sw, sh, sb.bytes(), P::PT).expect("src DynRef")),
                S::DynImage => {
                    let mut copy = sb.buf.clone();
                    let bytes = unsafe { std::slice::from_raw_parts_mut(copy.as_mut_ptr() as *mut u8, copy.len() * std::mem::size_of::<P>()) };
                    let s = Image::from_slice_u8(sw, sh, bytes, P::PT).expect("src DynImage");
                    let mut d = Image::from_slice_u8(dw, dh, db.bytes_mut(), P::PT).expect("dst DynImage");
                    r.resize(&s, &mut d, opts)
                }
                S::DynVec => {
                    // Vec<u8> carries no alignment guarantee: go through from_vec_u8 only when the allocator aligned it
                    let v: Vec<u8> = sb.bytes().to_vec();
                    match Image::from_vec_u8(sw, sh, v, P::PT) {
                        Ok(s) => {
                            let mut d = Image::from_slice_u8(dw, dh, db.bytes_mut(), P::PT).expect("dst DynImage");
                            r.resize(&s, &mut d, opts)
                        }
                        Err(fr::ImageBufferError::InvalidBufferAlignment) => {
                            let s = ImageRef::new(sw, sh, sb.bytes(), P::PT).expect("src DynRef");
                            let mut d = Image::from_slice_u8(dw, dh, db.bytes_mut(), P::PT).expect("dst DynImage");
                            r.resize(&s, &mut d, opts)
                        }
                        Err(e) => panic!("from_vec_u8: {:?}", e),
                    }
                }
                S::DynCropMutSrc => {
                    let mut copy = sb.buf.clone();
                    let bytes = unsafe { std::slice::from_raw_parts_mut(copy.as_mut_ptr() as *mut u8, copy.len() * std::mem::size_of::<P>()) };
                    let mut parent = Image::from_slice_u8(sp.pw, sp.ph, &mut bytes[..sp.pw as usize * sp.ph as usize * std::mem::size_of::<P>()], P::PT).expect("src dyn parent");
                    let s = CroppedImageMut::new(&mut parent, sp.left, sp.top, sw, sh).expect("src DynCropMutSrc");
                    let mut d = Image::from_slice_u8(dw, dh, db.bytes_mut(), P::PT).expect("dst DynImage");
                    r.resize(&s, &mut d, opts)
                }
                _ => {
                    let parent = ImageRef::new(sp.pw, sp.ph, sb.bytes(), P::PT).expect("src dyn parent");
                    let s = CroppedImage::new(&parent, sp.left, sp.top, sw, sh).expect("src DynCrop");
                    let mut d = Image::from_slice_u8(dw, dh, db.bytes_mut(), P::PT).expect("dst DynImage");
                    r.resize(&s, &mut d, opts)
                }
            }
        }
    }
}

/// A placement suitable for the container kind.
pub fn gen_place(rng: &mut crate::rng::Rng, w: u32, h: u32, crop: bool, exact_only: bool) -> Place {
    if exact_only {
        if crop && rng.chance(1, 2) {
            // view ending at the parent's last pixel
            let l = rng.below(4) as u32;
            let t = rng.below(4) as u32;
            return Place { pw: w + l, ph: h + t, left: l, top: t, tail: 0 };
        }
        return Place::exact(w, h);
    }
    if crop {
        let (l, t, r, b) = (rng.below(4) as u32, rng.below(4) as u32, rng.below(4) as u32, rng.below(4) as u32);
        Place { pw: w + l + r, ph: h + t + b, left: l, top: t, tail: if rng.chance(1, 3) { rng.below(5) as u32 } else { 0 } }
    } else {
        match rng.below(3) {
            0 => Place::exact(w, h),
            1 => Place { pw: w, ph: h + rng.range(1, 3) as u32, left: 0, top: 0, tail: rng.below(w.max(1) as u64) as u32 },
            _ => Place { pw: w, ph: h, left: 0, top: 0, tail: rng.range(1, 2 * w.max(1) as u64 + 3) as u32 },
        }
    }
}

/// View of rows through the `ImageView` trait (what any consumer of a view sees).
pub fn rows_of<V: ImageView>(v: &V) -> Vec<Vec<V::Pixel>> {
    v.iter_rows(0).map(|r| r.to_vec()).collect()
}

// ---------------------------------------------------------------- other operations through containers

/// Run `f` with the destination container of kind `dk` built over `db` as a typed mutable view.
/// Only typed destination kinds.
#[macro_export]
macro_rules! with_typed_dst {
    ($P:ty, $db:expr, $dk:expr, |$d:ident| $body:expr) => {{
        use $crate::containers::DstKind as __DK;
        use $crate::fr::images::*;
        let db = $db;
        let dp = db.place;
        let (dw, dh) = (db.w, db.h);
        let (dl1, dt1, dw1, dh1, dl2, dt2) = db.outer_pub();
        match $dk {
            __DK::Typed => {
                let mut $d = TypedImage::<$P>::from_pixels_slice(dw, dh, &mut db.buf).expect("dst Typed");
                $body
            }
            __DK::TypedBuf => {
                let mut $d = TypedImage::<$P>::from_buffer(dw, dh, db.bytes_mut()).expect("dst TypedBuf");
                $body
            }
            __DK::CropMut => {
                let mut parent = TypedImage::<$P>::from_pixels_slice(dp.pw, dp.ph, &mut db.buf).expect("dst parent");
                let mut $d = TypedCroppedImageMut::from_ref(&mut parent, dp.left, dp.top, dw, dh).expect("dst CropMut");
                $body
            }
            __DK::CropMutOwned => {
                let parent = TypedImage::<$P>::from_pixels_slice(dp.pw, dp.ph, &mut db.buf).expect("dst parent");
                let mut $d = TypedCroppedImageMut::new(parent, dp.left, dp.top, dw, dh).expect("dst CropMutOwned");
                $body
            }
            __DK::NestedMut => {
                let parent = TypedImage::<$P>::from_pixels_slice(dp.pw, dp.ph, &mut db.buf).expect("dst parent");
                let outer = TypedCroppedImageMut::new(parent, dl1, dt1, dw1, dh1).expect("dst outer");
                let mut $d = TypedCroppedImageMut::new(outer, dl2, dt2, dw, dh).expect("dst NestedMut");
                $body
            }
            __DK::UserMut => {
                let mut $d = $crate::containers::UserViewMut::<$P>::new(&mut db.buf, dp.pw, dp.left, dp.top, dw, dh);
                $body
            }
            _ => panic!("not a typed destination kind"),
        }
    }};
}

/// Run `f` with the dynamic destination container of kind `dk` (DynImage / DynCropMut).
#[macro_export]
macro_rules! with_dyn_dst {
    ($P:ty, $db:expr, $dk:expr, |$d:ident| $body:expr) => {{
        use $crate::containers::DstKind as __DK;
        use $crate::fr::images::*;
        let db = $db;
        let dp = db.place;
        let (dw, dh) = (db.w, db.h);
        match $dk {
            __DK::DynImage => {
                let mut $d = Image::from_slice_u8(dw, dh, db.bytes_mut(), <$P as $crate::px::Px>::PT).expect("dst DynImage");
                $body
            }
            __DK::DynCropMut => {
                let mut dparent = Image::from_slice_u8(dp.pw, dp.ph, db.bytes_mut(), <$P as $crate::px::Px>::PT).expect("dst dyn parent");
                let mut $d = CroppedImageMut::new(&mut dparent, dp.left, dp.top, dw, dh).expect("dst DynCropMut");
                $body
            }
            _ => panic!("not a dynamic destination kind"),
        }
    }};
}

/// Dynamic source container: DynRef or DynCrop.
#[macro_export]
macro_rules! with_dyn_src {
    ($P:ty, $sb:expr, $sk:expr, |$s:ident| $body:expr) => {{
        use $crate::containers::SrcKind as __SK;
        use $crate::fr::images::*;
        let sb = $sb;
        let sp = sb.place;
        match $sk {
            __SK::DynCrop => {
                let parent = ImageRef::new(sp.pw, sp.ph, sb.bytes(), <$P as $crate::px::Px>::PT).expect("src dyn parent");
                let $s = CroppedImage::new(&parent, sp.left, sp.top, sb.w, sb.h).expect("src DynCrop");
                $body
            }
            __SK::DynCropMutSrc => {
                // a mutable cropped view in the source role (over a copy: the backing itself is only borrowed)
                let mut copy = sb.buf.clone();
                let bytes = unsafe { std::slice::from_raw_parts_mut(copy.as_mut_ptr() as *mut u8, copy.len() * std::mem::size_of::<$P>()) };
                let mut parent = Image::from_slice_u8(sp.pw, sp.ph, bytes, <$P as $crate::px::Px>::PT).expect("src dyn parent");
                let $s = CroppedImageMut::new(&mut parent, sp.left, sp.top, sb.w, sb.h).expect("src DynCropMutSrc");
                $body
            }
            _ => {
                let $s = ImageRef::new(sb.w, sb.h, sb.bytes(), <$P as $crate::px::Px>::PT).expect("src DynRef");
                $body
            }
        }
    }};
}

/// Typed source container: Ref or Crop.
#[macro_export]
macro_rules! with_typed_src {
    ($P:ty, $sb:expr, $sk:expr, |$s:ident| $body:expr) => {{
        use $crate::containers::SrcKind as __SK;
        use $crate::fr::images::*;
        let sb = $sb;
        let sp = sb.place;
        match $sk {
            __SK::Crop => {
                let parent = TypedImageRef::<$P>::new(sp.pw, sp.ph, &sb.buf).expect("src parent");
                let $s = TypedCroppedImage::from_ref(&parent, sp.left, sp.top, sb.w, sb.h).expect("src Crop");
                $body
            }
            __SK::User => {
                let $s = $crate::containers::UserView::<$P>::new(&sb.buf, sp.pw, sp.left, sp.top, sb.w, sb.h);
                $body
            }
            _ => {
                let $s = TypedImageRef::<$P>::new(sb.w, sb.h, &sb.buf).expect("src Ref");
                $body
            }
        }
    }};
}

impl<P: Px> Backing<P> {
    pub fn outer_pub(&self) -> (u32, u32, u32, u32, u32, u32) {
        self.outer()
    }
}

/// Experiment switch: rows of the user-defined views are this many pixels longer than their width (0 = exactly the width).
pub fn user_pad() -> u32 {
    std::env::var("FIRV_USER_PAD").ok().and_then(|s| s.parse().ok()).unwrap_or(0)
}

// ---------------------------------------------------------------- a user-defined view

/// A view type defined outside the library, the way a user wraps a foreign buffer: it implements only the *required*
/// methods of `ImageView` / `ImageViewMut`, so every provided method (`iter_2_rows`, `iter_4_rows`,
/// `iter_rows_with_step`, `split_by_height/width` and their `_mut` forms through `UnsafeImageMut`) is the trait's
/// default implementation - code that none of the library's own containers executes for the height splits.
/// Rows are exactly `w` pixels long (the strictest form of the trait's safety contract), taken at `(left, top)` from
/// a parent of stride `pw`.
pub struct UserView<'a, P: Px> {
    buf: &'a [P],
    pw: usize,
    left: usize,
    top: usize,
    w: u32,
    h: u32,
    /// extra pixels at the end of every row slice (the trait allows rows longer than the width)
    pad: usize,
}

impl<'a, P: Px> UserView<'a, P> {
    pub fn new(buf: &'a [P], pw: u32, left: u32, top: u32, w: u32, h: u32) -> UserView<'a, P> {
        assert!(left as u64 + w as u64 <= pw as u64 && (top as u64 + h as u64) * pw as u64 <= buf.len() as u64);
        UserView { buf, pw: pw as usize, left: left as usize, top: top as usize, w, h, pad: 0 }
    }
    /// rows `pad` pixels longer than the width, as far as the parent row allows
    pub fn padded(mut self, pad: u32) -> Self {
        self.pad = (pad as usize).min(self.pw - self.left - self.w as usize);
        self
    }
    pub fn over(b: &'a Backing<P>) -> UserView<'a, P> {
        UserView::new(&b.buf, b.place.pw, b.place.left, b.place.top, b.w, b.h)
    }
}

unsafe impl<'a, P: Px> ImageView for UserView<'a, P> {
    type Pixel = P;
    fn width(&self) -> u32 {
        self.w
    }
    fn height(&self) -> u32 {
        self.h
    }
    fn iter_rows(&self, start_row: u32) -> impl Iterator<Item = &[P]> {
        let (pw, left, top, w) = (self.pw, self.left, self.top, self.w as usize + self.pad);
        let buf = self.buf;
        (start_row.min(self.h)..self.h).map(move |y| {
            let o = (top + y as usize) * pw + left;
            &buf[o..o + w]
        })
    }
}

pub struct UserViewMut<'a, P: Px> {
    buf: &'a mut [P],
    pw: usize,
    left: usize,
    top: usize,
    w: u32,
    h: u32,
    pad: usize,
}

impl<'a, P: Px> UserViewMut<'a, P> {
    pub fn new(buf: &'a mut [P], pw: u32, left: u32, top: u32, w: u32, h: u32) -> UserViewMut<'a, P> {
        assert!(left as u64 + w as u64 <= pw as u64 && (top as u64 + h as u64) * pw as u64 <= buf.len() as u64);
        UserViewMut { buf, pw: pw as usize, left: left as usize, top: top as usize, w, h, pad: 0 }
    }
    pub fn padded(mut self, pad: u32) -> Self {
        self.pad = (pad as usize).min(self.pw - self.left - self.w as usize);
        self
    }
    pub fn over(b: &'a mut Backing<P>) -> UserViewMut<'a, P> {
        let (p, w, h) = (b.place, b.w, b.h);
        UserViewMut::new(&mut b.buf, p.pw, p.left, p.top, w, h)
    }
}

unsafe impl<'a, P: Px> ImageView for UserViewMut<'a, P> {
    type Pixel = P;
    fn width(&self) -> u32 {
        self.w
    }
    fn height(&self) -> u32 {
        self.h
    }
    fn iter_rows(&self, start_row: u32) -> impl Iterator<Item = &[P]> {
        let (pw, left, top, w) = (self.pw, self.left, self.top, self.w as usize + self.pad);
        let buf: &[P] = self.buf;
        (start_row.min(self.h)..self.h).map(move |y| {
            let o = (top + y as usize) * pw + left;
            &buf[o..o + w]
        })
    }
}

unsafe impl<'a, P: Px> fr::ImageViewMut for UserViewMut<'a, P> {
    fn iter_rows_mut(&mut self, start_row: u32) -> impl Iterator<Item = &mut [P]> {
        let (pw, left, top, w, h) = (self.pw, self.left, self.top, self.w as usize + self.pad, self.h as usize);
        let start = (start_row as usize).min(h);
        // disjoint mutable rows: walk the parent row by row (a zero stride means zero-width rows)
        let mut rest: &mut [P] = if pw == 0 { &mut [] } else { &mut self.buf[(top + start) * pw..] };
        (start..h).map(move |_| {
            if pw == 0 {
                return <&mut [P]>::default();
            }
            let taken = std::mem::take(&mut rest);
            let (row, tail) = taken.split_at_mut(pw.min(taken.len()));
            rest = tail;
            &mut row[left..left + w]
        })
    }
}

// ---------------------------------------------------------------- dynamic images with a window (C16, C17)

/// An owned dynamic image `pw x ph` filled with `fill`, whose window `w x h` at `(left, top)` holds `win` (row-major bytes).
pub fn image_with_window(pt: fr::PixelType, win: &[u8], w: u32, h: u32, left: u32, top: u32, pw: u32, ph: u32, fill: u8) -> Image<'static> {
    let ps = pt.size();
    let mut img = Image::new(pw, ph, pt);
    let b = img.buffer_mut();
    b.fill(fill);
    for y in 0..h as usize {
        let o = ((top as usize + y) * pw as usize + left as usize) * ps;
        b[o..o + w as usize * ps].copy_from_slice(&win[y * w as usize * ps..(y + 1) * w as usize * ps]);
    }
    img
}

/// The bytes of the window `w x h` at `(left, top)` of a dynamic image, and whether every byte outside it still equals `fill`.
pub fn window_of_image(img: &Image, w: u32, h: u32, left: u32, top: u32, fill: u8) -> (Vec<u8>, bool) {
    let ps = img.pixel_type().size();
    let (pw, ph) = (img.width() as usize, img.height() as usize);
    let b = img.buffer();
    let mut out = Vec::with_capacity(w as usize * h as usize * ps);
    let mut clean = true;
    for y in 0..ph {
        for x in 0..pw {
            let inside = x >= left as usize && x < (left + w) as usize && y >= top as usize && y < (top + h) as usize;
            let px = &b[(y * pw + x) * ps..(y * pw + x + 1) * ps];
            if inside {
                out.extend_from_slice(px);
            } else if px.iter().any(|&v| v != fill) {
                clean = false;
            }
        }
    }
    (out, clean)
}
