//! Case descriptors (what is executed) and their JSON form (what is replayed and shown as evidence).
use crate::px::*;
use fast_image_resize as fr;
use fr::{CpuExtensions, Filter, FilterType, PixelType, ResizeAlg, ResizeOptions};
use serde_json::{json, Value};
use std::f64::consts::PI;

// ---------------------------------------------------------------- filters

#[derive(Clone, Copy, Debug, PartialEq, Eq, Hash)]
pub enum Filt {
    Box,
    Bilinear,
    Hamming,
    CatmullRom,
    Mitchell,
    Gaussian,
    Lanczos3,
    Custom(u8),
}

pub const BUILTIN: [Filt; 7] = [
    Filt::Box,
    Filt::Bilinear,
    Filt::Hamming,
    Filt::CatmullRom,
    Filt::Mitchell,
    Filt::Gaussian,
    Filt::Lanczos3,
];
pub const NONNEG: [Filt; 4] = [Filt::Box, Filt::Bilinear, Filt::Hamming, Filt::Gaussian];

fn sinc(x: f64) -> f64 {
    if x == 0.0 {
        1.0
    } else {
        (x * PI).sin() / (x * PI)
    }
}
fn c_lanczos4(x: f64) -> f64 {
    if (-4.0..4.0).contains(&x) {
        sinc(x) * sinc(x / 4.0)
    } else {
        0.0
    }
}
fn lobes(x: f64, side: f64) -> f64 {
    let a = x.abs();
    if a < 0.5 {
        1.0
    } else if a < 1.5 {
        side
    } else {
        0.0
    }
}
fn c_sharp20(x: f64) -> f64 {
    lobes(x, -0.2)
}
fn c_sharp28(x: f64) -> f64 {
    lobes(x, -0.28)
}
fn c_sharp40(x: f64) -> f64 {
    lobes(x, -0.4)
}
fn c_sharp44(x: f64) -> f64 {
    // peak weight 1/(1-0.88) = 8.3: far outside the envelope, precision 11/12
    lobes(x, -0.44)
}
fn c_tri(x: f64) -> f64 {
    (1.0 - x.abs()).max(0.0)
}
fn c_tri8(x: f64) -> f64 {
    (1.0 - x.abs() / 8.0).max(0.0)
}
fn c_one(_x: f64) -> f64 {
    1.0
}
fn c_negtri(x: f64) -> f64 {
    -(1.0 - x.abs()).max(0.0)
}
fn c_odd(x: f64) -> f64 {
    // anti-symmetric: window sums are zero or tiny -> enormous normalised weights
    x.signum() * (1.0 - x.abs() / 2.0).max(0.0)
}
fn c_lobes50(x: f64) -> f64 {
    50.0 * (3.0 * x).cos()
}
fn c_gauss_wide(x: f64) -> f64 {
    (-x * x / 200.0).exp()
}
fn c_tiny(x: f64) -> f64 {
    if x.abs() < 0.01 {
        1.0
    } else {
        0.0
    }
}
fn c_bspline(x: f64) -> f64 {
    let a = x.abs();
    if a < 1.0 {
        (4.0 - 6.0 * a * a + 3.0 * a * a * a) / 6.0
    } else if a < 2.0 {
        let t = 2.0 - a;
        t * t * t / 6.0
    } else {
        0.0
    }
}
fn c_huge(x: f64) -> f64 {
    1e300 * (1.0 - x.abs()).max(0.0)
}
fn c_small(x: f64) -> f64 {
    1e-300 * (1.0 - x.abs()).max(0.0)
}

/// (name, function, support, "tame": designed to stay inside the sum|w|<4 envelope)
pub const CUSTOM: [(&str, fn(f64) -> f64, f64, bool); 17] = [
    ("lanczos4", c_lanczos4, 4.0, true),
    ("sharp20", c_sharp20, 1.5, true),
    ("sharp28", c_sharp28, 1.5, true),
    ("sharp40", c_sharp40, 1.5, false),
    ("sharp44", c_sharp44, 1.5, false),
    ("tri", c_tri, 1.0, true),
    ("tri8", c_tri8, 8.0, true),
    ("one2.5", c_one, 2.5, true),
    ("negtri", c_negtri, 1.0, true),
    ("odd", c_odd, 2.0, false),
    ("lobes50", c_lobes50, 3.0, false),
    ("gauss64", c_gauss_wide, 64.0, true),
    ("tiny", c_tiny, 0.01, true),
    ("bspline", c_bspline, 2.0, true),
    ("huge", c_huge, 1.0, true),
    ("small", c_small, 1.0, true),
    ("one0.3", c_one, 0.3, true),
];

impl Filt {
    pub fn name(self) -> String {
        match self {
            Filt::Box => "Box".into(),
            Filt::Bilinear => "Bilinear".into(),
            Filt::Hamming => "Hamming".into(),
            Filt::CatmullRom => "CatmullRom".into(),
            Filt::Mitchell => "Mitchell".into(),
            Filt::Gaussian => "Gaussian".into(),
            Filt::Lanczos3 => "Lanczos3".into(),
            Filt::Custom(i) => format!("Custom:{}", CUSTOM[i as usize].0),
        }
    }
    pub fn from_name(s: &str) -> Option<Filt> {
        for f in BUILTIN {
            if f.name() == s {
                return Some(f);
            }
        }
        let c = s.strip_prefix("Custom:")?;
        CUSTOM.iter().position(|e| e.0 == c).map(|i| Filt::Custom(i as u8))
    }
    pub fn to_fr(self) -> FilterType {
        match self {
            Filt::Box => FilterType::Box,
            Filt::Bilinear => FilterType::Bilinear,
            Filt::Hamming => FilterType::Hamming,
            Filt::CatmullRom => FilterType::CatmullRom,
            Filt::Mitchell => FilterType::Mitchell,
            Filt::Gaussian => FilterType::Gaussian,
            Filt::Lanczos3 => FilterType::Lanczos3,
            Filt::Custom(i) => {
                let (name, f, sup, _) = CUSTOM[i as usize];
                FilterType::Custom(Filter::new(name, f, sup).unwrap())
            }
        }
    }
    pub fn is_custom(self) -> bool {
        matches!(self, Filt::Custom(_))
    }
}

// ---------------------------------------------------------------- algorithm, crop, back-end

#[derive(Clone, Copy, Debug, PartialEq, Eq, Hash)]
pub enum Alg {
    Nearest,
    Conv(Filt),
    Interp(Filt),
    Super(Filt, u8),
}

impl Alg {
    pub fn to_fr(self) -> ResizeAlg {
        match self {
            Alg::Nearest => ResizeAlg::Nearest,
            Alg::Conv(f) => ResizeAlg::Convolution(f.to_fr()),
            Alg::Interp(f) => ResizeAlg::Interpolation(f.to_fr()),
            Alg::Super(f, m) => ResizeAlg::SuperSampling(f.to_fr(), m),
        }
    }
    pub fn filt(self) -> Option<Filt> {
        match self {
            Alg::Nearest => None,
            Alg::Conv(f) | Alg::Interp(f) | Alg::Super(f, _) => Some(f),
        }
    }
    pub fn to_json(self) -> Value {
        match self {
            Alg::Nearest => json!({"alg": "Nearest"}),
            Alg::Conv(f) => json!({"alg": "Convolution", "filter": f.name()}),
            Alg::Interp(f) => json!({"alg": "Interpolation", "filter": f.name()}),
            Alg::Super(f, m) => json!({"alg": "SuperSampling", "filter": f.name(), "mult": m}),
        }
    }
    pub fn from_json(v: &Value) -> Option<Alg> {
        let f = || Filt::from_name(v["filter"].as_str()?);
        Some(match v["alg"].as_str()? {
            "Nearest" => Alg::Nearest,
            "Convolution" => Alg::Conv(f()?),
            "Interpolation" => Alg::Interp(f()?),
            "SuperSampling" => Alg::Super(f()?, v["mult"].as_u64()? as u8),
            _ => return None,
        })
    }
    pub fn short(self) -> String {
        match self {
            Alg::Nearest => "Nearest".into(),
            Alg::Conv(f) => format!("Conv({})", f.name()),
            Alg::Interp(f) => format!("Interp({})", f.name()),
            Alg::Super(f, m) => format!("Super({},{})", f.name(), m),
        }
    }
}

#[derive(Clone, Copy, Debug, PartialEq)]
pub enum Crop {
    None,
    Box([f64; 4]),
    Fit(f64, f64),
}

pub fn f64_to_json(x: f64) -> Value {
    json!(format!("{:#018x}", x.to_bits()))
}
pub fn f64_from_json(v: &Value) -> Option<f64> {
    let s = v.as_str()?;
    let s = s.strip_prefix("0x")?;
    Some(f64::from_bits(u64::from_str_radix(s, 16).ok()?))
}
/// human-readable rendering (never parsed back)
pub fn f64_show(x: f64) -> Value {
    if x.is_finite() {
        json!(x)
    } else {
        json!(format!("{}", x))
    }
}

impl Crop {
    pub fn to_json(self) -> Value {
        match self {
            Crop::None => json!({"kind": "none"}),
            Crop::Box(b) => json!({
                "kind": "box",
                "bits": b.iter().map(|&x| f64_to_json(x)).collect::<Vec<_>>(),
                "approx": b.iter().map(|&x| f64_show(x)).collect::<Vec<_>>(),
            }),
            Crop::Fit(x, y) => json!({
                "kind": "fit",
                "bits": [f64_to_json(x), f64_to_json(y)],
                "approx": [f64_show(x), f64_show(y)],
            }),
        }
    }
    pub fn from_json(v: &Value) -> Option<Crop> {
        Some(match v["kind"].as_str()? {
            "none" => Crop::None,
            "box" => {
                let a = v["bits"].as_array()?;
                Crop::Box([
                    f64_from_json(&a[0])?,
                    f64_from_json(&a[1])?,
                    f64_from_json(&a[2])?,
                    f64_from_json(&a[3])?,
                ])
            }
            "fit" => {
                let a = v["bits"].as_array()?;
                Crop::Fit(f64_from_json(&a[0])?, f64_from_json(&a[1])?)
            }
            _ => return None,
        })
    }
    /// The box the library will use (the `Fit` variant calls the library's own function)
    pub fn resolve(self, sw: u32, sh: u32, dw: u32, dh: u32) -> [f64; 4] {
        match self {
            Crop::None => [0.0, 0.0, sw as f64, sh as f64],
            Crop::Box(b) => b,
            Crop::Fit(x, y) => {
                let c = fr::CropBox::fit_src_into_dst_size(sw, sh, dw, dh, Some((x, y)));
                [c.left, c.top, c.width, c.height]
            }
        }
    }
}

#[derive(Clone, Copy, Debug, PartialEq, Eq, Hash)]
pub enum Ext {
    None,
    Sse4,
    Avx2,
}
pub const ALL_EXT: [Ext; 3] = [Ext::None, Ext::Sse4, Ext::Avx2];

impl Ext {
    pub fn to_fr(self) -> CpuExtensions {
        match self {
            Ext::None => CpuExtensions::None,
            Ext::Sse4 => CpuExtensions::Sse4_1,
            Ext::Avx2 => CpuExtensions::Avx2,
        }
    }
    pub fn name(self) -> &'static str {
        match self {
            Ext::None => "None",
            Ext::Sse4 => "Sse4_1",
            Ext::Avx2 => "Avx2",
        }
    }
    pub fn from_name(s: &str) -> Option<Ext> {
        ALL_EXT.iter().copied().find(|e| e.name() == s)
    }
    pub fn of(e: CpuExtensions) -> Ext {
        match e {
            CpuExtensions::None => Ext::None,
            CpuExtensions::Sse4_1 => Ext::Sse4,
            CpuExtensions::Avx2 => Ext::Avx2,
        }
    }
}

// ---------------------------------------------------------------- contents

#[derive(Clone, Copy, Debug, PartialEq)]
pub struct Content {
    /// 0 random bits (ints: any value; f32: uniform in [a,b]); 1 const a; 2 checker x; 3 checker y;
    /// 4 checker xy; 5 impulse b on a; 6 ramp a..b; 7 sparse b on a; 8 random in [a,b]
    pub kind: u8,
    pub seed: u64,
    pub a: f64,
    pub b: f64,
}

#[derive(Clone, Copy, Debug, PartialEq)]
pub struct AlphaPat {
    /// 0 random; 1 opaque; 2 zero stripes x; 3 zero stripes y; 4 random 35% zero; 5 zero border;
    /// 6 all zero; 7 single zero pixel; 8 low alpha 0..3; 9 zero | opaque split; 10 opaque | zero split; 11 random runs
    pub kind: u8,
    pub seed: u64,
}

impl Content {
    pub fn to_json(self) -> Value {
        json!({"kind": self.kind, "seed": self.seed.to_string(), "a": f64_to_json(self.a), "b": f64_to_json(self.b),
               "a_approx": f64_show(self.a), "b_approx": f64_show(self.b)})
    }
    pub fn from_json(v: &Value) -> Option<Content> {
        Some(Content {
            kind: v["kind"].as_u64()? as u8,
            seed: v["seed"].as_str()?.parse().ok()?,
            a: f64_from_json(&v["a"])?,
            b: f64_from_json(&v["b"])?,
        })
    }
}

impl AlphaPat {
    pub fn to_json(self) -> Value {
        json!({"kind": self.kind, "seed": self.seed.to_string()})
    }
    pub fn from_json(v: &Value) -> Option<AlphaPat> {
        Some(AlphaPat { kind: v["kind"].as_u64()? as u8, seed: v["seed"].as_str()?.parse().ok()? })
    }
}

// ---------------------------------------------------------------- the resize case

#[derive(Clone, Debug, PartialEq)]
pub struct RCase {
    pub pt: PixelType,
    pub sw: u32,
    pub sh: u32,
    pub dw: u32,
    pub dh: u32,
    pub crop: Crop,
    pub alg: Alg,
    pub use_alpha: bool,
    pub content: Content,
    pub alpha: Option<AlphaPat>,
}

impl RCase {
    pub fn to_json(&self) -> Value {
        json!({
            "pixel_type": pt_name(self.pt),
            "src": [self.sw, self.sh],
            "dst": [self.dw, self.dh],
            "crop": self.crop.to_json(),
            "algorithm": self.alg.to_json(),
            "use_alpha": self.use_alpha,
            "content": self.content.to_json(),
            "alpha_pattern": self.alpha.map(|a| a.to_json()),
        })
    }
    pub fn from_json(v: &Value) -> Option<RCase> {
        Some(RCase {
            pt: pt_from_name(v["pixel_type"].as_str()?)?,
            sw: v["src"][0].as_u64()? as u32,
            sh: v["src"][1].as_u64()? as u32,
            dw: v["dst"][0].as_u64()? as u32,
            dh: v["dst"][1].as_u64()? as u32,
            crop: Crop::from_json(&v["crop"])?,
            alg: Alg::from_json(&v["algorithm"])?,
            use_alpha: v["use_alpha"].as_bool()?,
            content: Content::from_json(&v["content"])?,
            alpha: if v["alpha_pattern"].is_null() { None } else { Some(AlphaPat::from_json(&v["alpha_pattern"])?) },
        })
    }
    pub fn options(&self) -> ResizeOptions {
        let mut o = ResizeOptions::new().resize_alg(self.alg.to_fr()).use_alpha(self.use_alpha);
        match self.crop {
            Crop::None => {}
            Crop::Box(b) => o = o.crop(b[0], b[1], b[2], b[3]),
            Crop::Fit(x, y) => o = o.fit_into_destination(Some((x, y))),
        }
        o
    }
    pub fn crop_box(&self) -> [f64; 4] {
        self.crop.resolve(self.sw, self.sh, self.dw, self.dh)
    }
    /// short one-line description
    pub fn short(&self) -> String {
        format!(
            "{} {}x{}->{}x{} crop={:?} {} alpha={}",
            pt_name(self.pt),
            self.sw,
            self.sh,
            self.dw,
            self.dh,
            self.crop,
            self.alg.short(),
            self.use_alpha
        )
    }
}
