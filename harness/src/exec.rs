//! Calling the library.
use crate::px::*;
use crate::spec::*;
use fast_image_resize as fr;
use fr::images::{TypedImage, TypedImageRef};
use fr::{ResizeError, ResizeOptions, Resizer};

#[cfg(fir_verif)]
pub use fr::verif_hooks::Event;

/// Both SIMD back-ends must be executable on this host.
pub fn host_ok() -> bool {
    fr::CpuExtensions::Avx2.is_supported() && fr::CpuExtensions::Sse4_1.is_supported()
}

pub fn resizer(ext: Ext) -> Resizer {
    let mut r = Resizer::new();
    unsafe { r.set_cpu_extensions(ext.to_fr()) };
    r
}

pub fn sentinel<P: Px>(n: usize) -> Vec<P> {
    let c: Vec<P::C> = (0..P::NC).map(|i| P::C::from_bits(if P::kind() == CompKind::F32 { 0x42f6_e979 + i as u64 } else { 0x5a5a_5a5a_5a5a_5a5a })).collect();
    vec![P::from_comps(&c); n]
}

/// Resize plain contiguous pixels with a fresh Resizer; the destination starts as a sentinel pattern.
pub fn resize_vec<P: Px>(src: &[P], sw: u32, sh: u32, dw: u32, dh: u32, opts: &ResizeOptions, ext: Ext) -> Result<Vec<P>, ResizeError> {
    let mut r = resizer(ext);
    resize_with(&mut r, src, sw, sh, dw, dh, opts)
}

pub fn resize_with<P: Px>(r: &mut Resizer, src: &[P], sw: u32, sh: u32, dw: u32, dh: u32, opts: &ResizeOptions) -> Result<Vec<P>, ResizeError> {
    let src_img = TypedImageRef::new(sw, sh, src).expect("source buffer size");
    let mut dst = sentinel::<P>(dw as usize * dh as usize);
    {
        let mut dst_img = TypedImage::from_pixels_slice(dw, dh, &mut dst).expect("destination buffer size");
        r.resize_typed(&src_img, &mut dst_img, opts)?;
    }
    Ok(dst)
}

/// Run `f` with hook recording on, return its result and the events.
#[cfg(fir_verif)]
pub fn record<T>(f: impl FnOnce() -> T) -> (T, Vec<Event>) {
    let _ = fr::verif_hooks::take_events();
    fr::verif_hooks::set_recording(true);
    let r = f();
    fr::verif_hooks::set_recording(false);
    (r, fr::verif_hooks::take_events())
}

/// First hook violation in an event list
#[cfg(fir_verif)]
pub fn hook_violation(ev: &[Event]) -> Option<String> {
    ev.iter().find_map(|e| if let Event::HookViolation(s) = e { Some(s.clone()) } else { None })
}

/// Like `record`, but a panic inside `f` is caught (message returned) and the events recorded up
/// to the panic are still returned.
#[cfg(fir_verif)]
pub fn record_catch<T>(f: impl FnOnce() -> T) -> (Result<T, String>, Vec<Event>) {
    let _ = fr::verif_hooks::take_events();
    fr::verif_hooks::set_recording(true);
    let r = std::panic::catch_unwind(std::panic::AssertUnwindSafe(f));
    fr::verif_hooks::set_recording(false);
    let ev = fr::verif_hooks::take_events();
    let r = r.map_err(|e| {
        let msg = if let Some(s) = e.downcast_ref::<&str>() {
            s.to_string()
        } else if let Some(s) = e.downcast_ref::<String>() {
            s.clone()
        } else {
            "panic".to_string()
        };
        format!("{} @ {}", msg, crate::run::take_panic_location())
    });
    (r, ev)
}

/// Largest sum of absolute coefficients over the passes in an event list (None: no pass ran).
#[cfg(fir_verif)]
pub fn max_abs_sum(ev: &[Event]) -> Option<f64> {
    let mut m: Option<f64> = None;
    for e in ev {
        if let Event::Pass { max_abs_sum, .. } = e {
            let v = if max_abs_sum.is_nan() { f64::INFINITY } else { *max_abs_sum };
            m = Some(m.map_or(v, |x: f64| x.max(v)));
        }
    }
    m
}

/// Like `resize_vec`, but the source is a `TypedImage` (not a `TypedImageRef`): the library then uses the default
/// implementations of the `ImageView` methods instead of the specialised ones.
pub fn resize_vec_typed_src<P: Px>(src: &[P], sw: u32, sh: u32, dw: u32, dh: u32, opts: &ResizeOptions, ext: Ext) -> Result<Vec<P>, ResizeError> {
    let mut r = resizer(ext);
    let mut copy = src.to_vec();
    let src_img = TypedImage::from_pixels_slice(sw, sh, &mut copy).expect("source buffer size");
    let mut dst = sentinel::<P>(dw as usize * dh as usize);
    {
        let mut dst_img = TypedImage::from_pixels_slice(dw, dh, &mut dst).expect("destination buffer size");
        r.resize_typed(&src_img, &mut dst_img, opts)?;
    }
    Ok(dst)
}
