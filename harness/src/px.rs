//! Uniform access to the 13 pixel types of the library.
use fast_image_resize as fr;
use fr::pixels::*;
use fr::{PixelTrait, PixelType};
use std::fmt::Debug;

#[derive(Clone, Copy, Debug, PartialEq, Eq, Hash)]
pub enum CompKind {
    U8,
    U16,
    I32,
    F32,
}

impl CompKind {
    pub fn is_int(self) -> bool {
        self != CompKind::F32
    }
    /// nominal (lo, hi) of the component range
    pub fn range(self) -> (f64, f64) {
        match self {
            CompKind::U8 => (0.0, 255.0),
            CompKind::U16 => (0.0, 65535.0),
            CompKind::I32 => (i32::MIN as f64, i32::MAX as f64),
            CompKind::F32 => (f64::NEG_INFINITY, f64::INFINITY),
        }
    }
    pub fn name(self) -> &'static str {
        match self {
            CompKind::U8 => "u8",
            CompKind::U16 => "u16",
            CompKind::I32 => "i32",
            CompKind::F32 => "f32",
        }
    }
}

pub trait Comp: Copy + PartialEq + PartialOrd + Debug + Default + Send + Sync + 'static {
    const KIND: CompKind;
    fn to_f64(self) -> f64;
    /// rounding, saturating conversion
    fn from_f64(v: f64) -> Self;
    /// bit pattern, zero extended (floats: raw bits)
    fn bits(self) -> u64;
    fn from_bits(b: u64) -> Self;
}

impl Comp for u8 {
    const KIND: CompKind = CompKind::U8;
    fn to_f64(self) -> f64 {
        self as f64
    }
    fn from_f64(v: f64) -> Self {
        v.round().clamp(0.0, 255.0) as u8
    }
    fn bits(self) -> u64 {
        self as u64
    }
    fn from_bits(b: u64) -> Self {
        b as u8
    }
}
impl Comp for u16 {
    const KIND: CompKind = CompKind::U16;
    fn to_f64(self) -> f64 {
        self as f64
    }
    fn from_f64(v: f64) -> Self {
        v.round().clamp(0.0, 65535.0) as u16
    }
    fn bits(self) -> u64 {
        self as u64
    }
    fn from_bits(b: u64) -> Self {
        b as u16
    }
}
impl Comp for i32 {
    const KIND: CompKind = CompKind::I32;
    fn to_f64(self) -> f64 {
        self as f64
    }
    fn from_f64(v: f64) -> Self {
        v.round().clamp(i32::MIN as f64, i32::MAX as f64) as i32
    }
    fn bits(self) -> u64 {
        self as u32 as u64
    }
    fn from_bits(b: u64) -> Self {
        b as u32 as i32
    }
}
impl Comp for f32 {
    const KIND: CompKind = CompKind::F32;
    fn to_f64(self) -> f64 {
        self as f64
    }
    fn from_f64(v: f64) -> Self {
        v as f32
    }
    fn bits(self) -> u64 {
        self.to_bits() as u64
    }
    fn from_bits(b: u64) -> Self {
        f32::from_bits(b as u32)
    }
}

pub trait Px: PixelTrait<Component = <Self as Px>::C> {
    type C: Comp + fr::pixels::PixelComponent;
    const NC: usize;
    const PT: PixelType;
    /// pixel types supported by MulDiv (last component is alpha)
    const HAS_ALPHA: bool;
    const NAME: &'static str;

    fn kind() -> CompKind {
        <Self::C as Comp>::KIND
    }
    fn from_comps(c: &[Self::C]) -> Self {
        let mut p = [Self::default()];
        Self::components_mut(&mut p).copy_from_slice(&c[..Self::NC]);
        p[0]
    }
    fn comps_of(p: &Self) -> &[Self::C] {
        Self::components(std::slice::from_ref(p))
    }
    /// flat component bit patterns of a pixel slice
    fn bits_of(px: &[Self]) -> Vec<u64> {
        Self::components(px).iter().map(|c| c.bits()).collect()
    }
}

macro_rules! impl_px {
    ($t:ident, $c:ty, $n:literal, $alpha:literal) => {
        impl Px for $t {
            type C = $c;
            const NC: usize = $n;
            const PT: PixelType = PixelType::$t;
            const HAS_ALPHA: bool = $alpha;
            const NAME: &'static str = stringify!($t);
        }
    };
}
impl_px!(U8, u8, 1, false);
impl_px!(U8x2, u8, 2, true);
impl_px!(U8x3, u8, 3, false);
impl_px!(U8x4, u8, 4, true);
impl_px!(U16, u16, 1, false);
impl_px!(U16x2, u16, 2, true);
impl_px!(U16x3, u16, 3, false);
impl_px!(U16x4, u16, 4, true);
impl_px!(I32, i32, 1, false);
impl_px!(F32, f32, 1, false);
impl_px!(F32x2, f32, 2, true);
impl_px!(F32x3, f32, 3, false);
impl_px!(F32x4, f32, 4, true);

pub const ALL_PT: [PixelType; 13] = [
    PixelType::U8,
    PixelType::U8x2,
    PixelType::U8x3,
    PixelType::U8x4,
    PixelType::U16,
    PixelType::U16x2,
    PixelType::U16x3,
    PixelType::U16x4,
    PixelType::I32,
    PixelType::F32,
    PixelType::F32x2,
    PixelType::F32x3,
    PixelType::F32x4,
];

pub const ALPHA_PT: [PixelType; 6] = [
    PixelType::U8x2,
    PixelType::U8x4,
    PixelType::U16x2,
    PixelType::U16x4,
    PixelType::F32x2,
    PixelType::F32x4,
];

pub fn pt_name(pt: PixelType) -> &'static str {
    match pt {
        PixelType::U8 => "U8",
        PixelType::U8x2 => "U8x2",
        PixelType::U8x3 => "U8x3",
        PixelType::U8x4 => "U8x4",
        PixelType::U16 => "U16",
        PixelType::U16x2 => "U16x2",
        PixelType::U16x3 => "U16x3",
        PixelType::U16x4 => "U16x4",
        PixelType::I32 => "I32",
        PixelType::F32 => "F32",
        PixelType::F32x2 => "F32x2",
        PixelType::F32x3 => "F32x3",
        PixelType::F32x4 => "F32x4",
        _ => "?",
    }
}

pub fn pt_from_name(s: &str) -> Option<PixelType> {
    ALL_PT.iter().copied().find(|&p| pt_name(p) == s)
}

pub fn pt_kind(pt: PixelType) -> CompKind {
    match pt {
        PixelType::U8 | PixelType::U8x2 | PixelType::U8x3 | PixelType::U8x4 => CompKind::U8,
        PixelType::U16 | PixelType::U16x2 | PixelType::U16x3 | PixelType::U16x4 => CompKind::U16,
        PixelType::I32 => CompKind::I32,
        _ => CompKind::F32,
    }
}

pub fn pt_nc(pt: PixelType) -> usize {
    match pt {
        PixelType::U8 | PixelType::U16 | PixelType::I32 | PixelType::F32 => 1,
        PixelType::U8x2 | PixelType::U16x2 | PixelType::F32x2 => 2,
        PixelType::U8x3 | PixelType::U16x3 | PixelType::F32x3 => 3,
        _ => 4,
    }
}

pub fn pt_has_alpha(pt: PixelType) -> bool {
    ALPHA_PT.contains(&pt)
}

/// `with_px!(pixel_type, P => expression using P)`
#[macro_export]
macro_rules! with_px {
    ($pt:expr, $P:ident => $body:expr) => {{
        use fast_image_resize::pixels as __p;
        use fast_image_resize::PixelType as __PT;
        match $pt {
            __PT::U8 => { type $P = __p::U8; $body }
            __PT::U8x2 => { type $P = __p::U8x2; $body }
            __PT::U8x3 => { type $P = __p::U8x3; $body }
            __PT::U8x4 => { type $P = __p::U8x4; $body }
            __PT::U16 => { type $P = __p::U16; $body }
            __PT::U16x2 => { type $P = __p::U16x2; $body }
            __PT::U16x3 => { type $P = __p::U16x3; $body }
            __PT::U16x4 => { type $P = __p::U16x4; $body }
            __PT::I32 => { type $P = __p::I32; $body }
            __PT::F32 => { type $P = __p::F32; $body }
            __PT::F32x2 => { type $P = __p::F32x2; $body }
            __PT::F32x3 => { type $P = __p::F32x3; $body }
            __PT::F32x4 => { type $P = __p::F32x4; $body }
            _ => unreachable!(),
        }
    }};
}

/// `with_alpha_px!(pixel_type, P => expression)` for the six alpha pixel types only
#[macro_export]
macro_rules! with_alpha_px {
    ($pt:expr, $P:ident => $body:expr) => {{
        use fast_image_resize::pixels as __p;
        use fast_image_resize::PixelType as __PT;
        match $pt {
            __PT::U8x2 => { type $P = __p::U8x2; $body }
            __PT::U8x4 => { type $P = __p::U8x4; $body }
            __PT::U16x2 => { type $P = __p::U16x2; $body }
            __PT::U16x4 => { type $P = __p::U16x4; $body }
            __PT::F32x2 => { type $P = __p::F32x2; $body }
            __PT::F32x4 => { type $P = __p::F32x4; $body }
            _ => unreachable!(),
        }
    }};
}

pub fn ulp32_up(x: f64) -> f64 {
    // ulp of the binade of |x| rounded outward (a value on a binade edge gets the larger ulp)
    let a = (x.abs() as f32).max(f32::MIN_POSITIVE);
    let a = if (a as f64) < x.abs() { f32::from_bits(a.to_bits() + 1) } else { a };
    if !a.is_finite() {
        return f64::INFINITY;
    }
    let b = f32::from_bits(a.to_bits() + 1);
    if !b.is_finite() {
        return (a - f32::from_bits(a.to_bits() - 1)) as f64;
    }
    (b - a) as f64
}
