//! Independent f64 reference resampler with a per-sample error bound.
//!
//! Written from the property text (C01) and the filter definitions, not from the kernels:
//! pixel-centre mapping, support scaled by max(scale,1) (fixed for Interpolation), taps are the
//! source pixels whose centre lies inside the support, weights normalised to sum 1, pass order
//! vertical-first for 8-bit formats, intermediate clamped to the component range, a dimension
//! whose size equals an integer-aligned crop is the identity.
use crate::px::{ulp32_up, CompKind};
use crate::spec::{Alg, Filt};
use std::f64::consts::PI;

pub fn support(k: Filt) -> f64 {
    match k {
        Filt::Box => 0.5,
        Filt::Bilinear | Filt::Hamming => 1.0,
        Filt::CatmullRom | Filt::Mitchell => 2.0,
        Filt::Gaussian | Filt::Lanczos3 => 3.0,
        Filt::Custom(i) => crate::spec::CUSTOM[i as usize].2,
    }
}

/// Kernel value and "t sits on a discontinuity" flag.
pub fn eval(k: Filt, t: f64) -> (f64, bool) {
    let a = t.abs();
    match k {
        Filt::Box => ((if t > -0.5 && t <= 0.5 { 1.0 } else { 0.0 }), (a - 0.5).abs() < 1e-9),
        Filt::Bilinear => (if a < 1.0 { 1.0 - a } else { 0.0 }, false),
        Filt::Hamming => {
            if a == 0.0 {
                (1.0, false)
            } else if a >= 1.0 {
                (0.0, false)
            } else {
                let x = a * PI;
                ((0.54 + 0.46 * x.cos()) * x.sin() / x, false)
            }
        }
        Filt::CatmullRom => {
            // Keys cubic, a = -0.5
            let v = if a < 1.0 {
                1.5 * a * a * a - 2.5 * a * a + 1.0
            } else if a < 2.0 {
                -0.5 * a * a * a + 2.5 * a * a - 4.0 * a + 2.0
            } else {
                0.0
            };
            (v, false)
        }
        Filt::Mitchell => {
            // Mitchell-Netravali, B = C = 1/3
            let v = if a < 1.0 {
                (7.0 * a * a * a - 12.0 * a * a + 16.0 / 3.0) / 6.0
            } else if a < 2.0 {
                (-7.0 / 3.0 * a * a * a + 12.0 * a * a - 20.0 * a + 32.0 / 3.0) / 6.0
            } else {
                0.0
            };
            (v, false)
        }
        Filt::Gaussian => {
            // sigma = 0.5, cut at |t| < 3: the jump at the cut is 1.2e-8 of the peak
            let v = if t >= -3.0 && t < 3.0 { (-(t * t) / 0.5).exp() / ((2.0 * PI).sqrt() * 0.5) } else { 0.0 };
            (v, (a - 3.0).abs() < 1e-9)
        }
        Filt::Lanczos3 => {
            let sinc = |x: f64| if x == 0.0 { 1.0 } else { (x * PI).sin() / (x * PI) };
            (if t >= -3.0 && t < 3.0 { sinc(t) * sinc(t / 3.0) } else { 0.0 }, false)
        }
        Filt::Custom(i) => ((crate::spec::CUSTOM[i as usize].1)(t), false),
    }
}

#[derive(Clone, Debug)]
pub struct Window {
    pub start: usize,
    pub w: Vec<f64>,
    /// sample excluded from numeric comparison (Box edge / zero weight sum)
    pub ambiguous: bool,
    /// relative widening for a tap on the Gaussian cut-off
    pub slack: f64,
}

pub struct Axis {
    pub windows: Vec<Window>,
    pub max_w: f64,
}

impl Axis {
    pub fn max_len(&self) -> usize {
        self.windows.iter().map(|w| w.w.len()).max().unwrap_or(0)
    }
}

pub fn axis_weights(in_size: usize, in0: f64, in1: f64, out_size: usize, k: Filt, adaptive: bool) -> Axis {
    let scale = (in1 - in0) / out_size as f64;
    let fscale = if adaptive { scale.max(1.0) } else { 1.0 };
    let radius = support(k) * fscale;
    let mut windows = Vec::with_capacity(out_size);
    let mut max_w = 0.0f64;
    for o in 0..out_size {
        let c = in0 + (o as f64 + 0.5) * scale;
        let lo = (c - radius).floor().max(0.0) as usize;
        let hi = ((c + radius).ceil().min(in_size as f64)).max(0.0) as usize;
        let mut w = Vec::new();
        let mut amb = false;
        let mut slack = 0.0;
        let mut sum = 0.0;
        for x in lo..hi.max(lo) {
            let t = (x as f64 + 0.5 - c) / fscale;
            let (v, a) = eval(k, t);
            if a {
                if k == Filt::Gaussian {
                    slack += 1.3e-8;
                } else {
                    amb = true;
                }
            }
            w.push(v);
            sum += v;
        }
        if sum != 0.0 {
            for v in w.iter_mut() {
                *v /= sum;
            }
            slack /= sum.abs();
        } else {
            amb = true;
        }
        for &v in &w {
            if v > max_w {
                max_w = v;
            }
        }
        windows.push(Window { start: lo, w, ambiguous: amb, slack });
    }
    Axis { windows, max_w }
}

/// Fixed-point precision given by the documented rule for the largest weight of a pass
/// (coefficients stored in i16 for 8-bit, i32 for 16-bit formats; at most 22 / 46 bits),
/// minus one bit of slack against knife-edge disagreement.
pub fn precision(kind: CompKind, max_w: f64) -> Option<i32> {
    let (bits, coef_bits) = match kind {
        CompKind::U8 => (22, 15),
        CompKind::U16 => (46, 31),
        _ => return None,
    };
    let mut p = 0;
    for cur in 0..bits {
        p = cur;
        let next = (max_w * 2f64.powi(cur + 1)).round();
        if next >= 2f64.powi(coef_bits) {
            break;
        }
    }
    Some(p - 1)
}

pub struct Plane {
    pub w: usize,
    pub h: usize,
    pub val: Vec<f64>,
    /// error bound of each value (INFINITY: excluded)
    pub err: Vec<f64>,
    /// magnitude of what was summed to obtain the value
    pub mag: Vec<f64>,
}

impl Plane {
    pub fn exact(w: usize, h: usize, val: Vec<f64>) -> Plane {
        let mag = val.iter().map(|v| v.abs()).collect();
        Plane { w, h, err: vec![0.0; val.len()], mag, val }
    }
}

/// One pass. horizontal: windows index x; rows taken from `src` rows `off..off+out_other`.
/// vertical: windows index y; columns taken from `src` columns `off..off+out_other`.
pub fn pass(src: &Plane, axis: &Axis, horizontal: bool, kind: CompKind, off: usize, out_other: usize) -> Plane {
    let n = axis.windows.len();
    let (lo, hi) = kind.range();
    let p = precision(kind, axis.max_w);
    let (ow, oh) = if horizontal { (n, out_other) } else { (out_other, n) };
    let mut out = vec![0.0; ow * oh];
    let mut oerr = vec![0.0; ow * oh];
    let mut omag = vec![0.0; ow * oh];
    let w = src.w;
    for oy in 0..oh {
        for ox in 0..ow {
            let win = if horizontal { &axis.windows[ox] } else { &axis.windows[oy] };
            let mut s = 0.0;
            let mut sabs = 0.0;
            let mut sx = 0.0;
            let mut eprop = 0.0;
            let mut esum = 0.0;
            let mut mag = 0.0;
            for (i, &wt) in win.w.iter().enumerate() {
                let (sxi, syi) = if horizontal { (win.start + i, oy + off) } else { (ox + off, win.start + i) };
                let idx = syi * w + sxi;
                let v = src.val[idx];
                s += wt * v;
                sabs += (wt * v).abs();
                sx += v.abs();
                eprop += wt.abs() * src.err[idx];
                esum += src.err[idx];
                mag += wt.abs() * src.mag[idx];
            }
            let e = match kind {
                CompKind::U8 | CompKind::U16 => 0.5 + 2f64.powi(-(p.unwrap() + 1)) * sx + 1e-7,
                // the kernel-evaluation slack (1e-13 per weight) applies to the true input values, which may differ
                // from the model's by their own error: a tap whose ideal weight is exactly 0 at the support edge but
                // 3e-16 in another correct evaluation, times an intermediate value that is 0 here and 3e-16 there
                CompKind::I32 => 0.5 + sabs * 2f64.powi(-40) + 1e-13 * (sx + esum) + 1e-7,
                CompKind::F32 => 0.5 * ulp32_up(s.abs() + sabs * 2f64.powi(-40)) + sabs * 2f64.powi(-40) + 1e-13 * (sx + esum),
            };
            let mut e = e + eprop + win.slack * (sx + s.abs());
            if win.ambiguous || win.w.is_empty() {
                e = f64::INFINITY;
            }
            let i = oy * ow + ox;
            out[i] = s.max(lo).min(hi);
            oerr[i] = e;
            omag[i] = mag;
        }
    }
    Plane { w: ow, h: oh, val: out, err: oerr, mag: omag }
}

/// Convolution of the crop of a plane to dw x dh.
pub fn convolve(plane: &Plane, crop: [f64; 4], dw: usize, dh: usize, k: Filt, adaptive: bool, kind: CompKind) -> Plane {
    let [l, t, cw, ch] = crop;
    let (sw, sh) = (plane.w, plane.h);
    let need_h = dw as f64 != cw || l != l.round();
    let need_v = dh as f64 != ch || t != t.round();
    match (need_h, need_v) {
        (false, false) => {
            let mut val = vec![0.0; dw * dh];
            let mut err = vec![0.0; dw * dh];
            let mut mag = vec![0.0; dw * dh];
            for y in 0..dh {
                for x in 0..dw {
                    let i = (y + t as usize) * sw + x + l as usize;
                    val[y * dw + x] = plane.val[i];
                    err[y * dw + x] = plane.err[i];
                    mag[y * dw + x] = plane.mag[i];
                }
            }
            Plane { w: dw, h: dh, val, err, mag }
        }
        (true, false) => {
            let ax = axis_weights(sw, l, l + cw, dw, k, adaptive);
            pass(plane, &ax, true, kind, t as usize, dh)
        }
        (false, true) => {
            let ay = axis_weights(sh, t, t + ch, dh, k, adaptive);
            pass(plane, &ay, false, kind, l as usize, dw)
        }
        (true, true) => {
            let ax = axis_weights(sw, l, l + cw, dw, k, adaptive);
            let ay = axis_weights(sh, t, t + ch, dh, k, adaptive);
            if kind == CompKind::U8 {
                let tmp = pass(plane, &ay, false, kind, 0, sw);
                pass(&tmp, &ax, true, kind, 0, dh)
            } else {
                let tmp = pass(plane, &ax, true, kind, 0, sh);
                pass(&tmp, &ay, false, kind, 0, dw)
            }
        }
    }
}

/// Index of the source pixel under destination centre `i` and whether the ideal coordinate is
/// within floating-point noise of an integer (then either neighbour is acceptable).
pub fn nearest_index(origin: f64, extent: f64, i: usize, n: usize, in_size: usize) -> (usize, bool) {
    let scale = extent / n as f64;
    let f = origin + (i as f64 + 0.5) * scale;
    let tol = 4.0 * (n as f64 + 2.0) * f64::EPSILON * f.abs().max(1.0);
    let amb = (f - f.round()).abs() <= tol;
    let idx = (f.floor().max(0.0) as usize).min(in_size.saturating_sub(1));
    (idx, amb)
}

/// Nearest-neighbour resize of a plane (used for the SuperSampling intermediate).
/// Returns the plane and "some pick was ambiguous".
pub fn nearest(plane: &Plane, crop: [f64; 4], tw: usize, th: usize) -> (Plane, bool) {
    let [l, t, cw, ch] = crop;
    let mut val = vec![0.0; tw * th];
    let mut amb = false;
    let xs: Vec<(usize, bool)> = (0..tw).map(|x| nearest_index(l, cw, x, tw, plane.w)).collect();
    for y in 0..th {
        let (sy, ay) = nearest_index(t, ch, y, th, plane.h);
        amb |= ay;
        for x in 0..tw {
            let (sx, axm) = xs[x];
            amb |= axm;
            val[y * tw + x] = plane.val[sy * plane.w + sx];
        }
    }
    (Plane::exact(tw, th, val), amb)
}

/// Size of the SuperSampling intermediate, or None when the algorithm resizes directly.
pub fn super_sampling_size(crop: [f64; 4], dw: usize, dh: usize, m: u8) -> Option<(usize, usize)> {
    let ws = crop[2] / dw as f64;
    let hs = crop[3] / dh as f64;
    let factor = ws.min(hs) / m as f64;
    if factor > 1.2 {
        Some(((crop[2] / factor).round() as usize, (crop[3] / factor).round() as usize))
    } else {
        None
    }
}

/// Whether `factor` is so close to 1.2 that the branch is decided by rounding noise.
pub fn super_sampling_knife_edge(crop: [f64; 4], dw: usize, dh: usize, m: u8) -> bool {
    let ws = crop[2] / dw as f64;
    let hs = crop[3] / dh as f64;
    let factor = ws.min(hs) / m as f64;
    (factor - 1.2).abs() < 1e-12
}

/// The ideal result of `alg` for one channel.
pub fn reference(plane: &[f64], sw: usize, sh: usize, crop: [f64; 4], dw: usize, dh: usize, alg: Alg, kind: CompKind) -> Plane {
    let src = Plane::exact(sw, sh, plane.to_vec());
    match alg {
        Alg::Nearest => {
            let (p, amb) = nearest(&src, crop, dw, dh);
            let mut p = p;
            if amb {
                p.err.iter_mut().for_each(|e| *e = f64::INFINITY);
            }
            p
        }
        Alg::Conv(k) => convolve(&src, crop, dw, dh, k, true, kind),
        Alg::Interp(k) => convolve(&src, crop, dw, dh, k, false, kind),
        Alg::Super(k, m) => {
            if super_sampling_knife_edge(crop, dw, dh, m) {
                let mut p = convolve(&src, crop, dw, dh, k, true, kind);
                p.err.iter_mut().for_each(|e| *e = f64::INFINITY);
                return p;
            }
            match super_sampling_size(crop, dw, dh, m) {
                Some((tw, th)) => {
                    let (tmp, amb) = nearest(&src, crop, tw, th);
                    let mut p = convolve(&tmp, [0.0, 0.0, tw as f64, th as f64], dw, dh, k, true, kind);
                    if amb {
                        p.err.iter_mut().for_each(|e| *e = f64::INFINITY);
                    }
                    p
                }
                None => convolve(&src, crop, dw, dh, k, true, kind),
            }
        }
    }
}

/// Longest kernel (number of taps) the algorithm uses on either axis, and whether both passes run.
pub fn geometry_class(sw: usize, sh: usize, crop: [f64; 4], dw: usize, dh: usize, alg: Alg) -> (usize, bool) {
    let (k, adaptive) = match alg {
        Alg::Nearest => return (1, false),
        Alg::Conv(k) | Alg::Super(k, _) => (k, true),
        Alg::Interp(k) => (k, false),
    };
    let (sw, sh, crop) = match alg {
        Alg::Super(_, m) => match super_sampling_size(crop, dw, dh, m) {
            Some((tw, th)) => (tw, th, [0.0, 0.0, tw as f64, th as f64]),
            None => (sw, sh, crop),
        },
        _ => (sw, sh, crop),
    };
    let _ = (sw, sh);
    let [l, t, cw, ch] = crop;
    let need_h = dw as f64 != cw || l != l.round();
    let need_v = dh as f64 != ch || t != t.round();
    let len = |extent: f64, n: usize| -> usize {
        let scale = extent / n as f64;
        let fs = if adaptive { scale.max(1.0) } else { 1.0 };
        (2.0 * support(k) * fs).ceil() as usize
    };
    let mut m = 1;
    if need_h {
        m = m.max(len(cw, dw));
    }
    if need_v {
        m = m.max(len(ch, dh));
    }
    (m, need_h && need_v)
}
