//! C08 (needs the `rayon` feature).
#[path = "../monitors/c08.rs"]
mod c08;

use firv::run::Ctx;

fn main() {
    let mut ctx = Ctx::from_args();
    if !firv::exec::host_ok() {
        println!("INCONCLUSIVE host lacks sse4.1/avx2");
        std::process::exit(2);
    }
    match ctx.prop.as_str() {
        "NOOP" => return,
        "C08" => c08::run(&mut ctx),
        p => panic!("unknown property {}", p),
    }
    ctx.finish();
}
