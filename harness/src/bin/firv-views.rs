//! Monitors over all container kinds: C03 C04 C05 C13 C14.
#[path = "../monitors/c03.rs"]
mod c03;
#[path = "../monitors/c04.rs"]
mod c04;
#[path = "../monitors/c05.rs"]
mod c05;
#[path = "../monitors/c13.rs"]
mod c13;
#[path = "../monitors/c14.rs"]
mod c14;

use firv::run::Ctx;

fn main() {
    let mut ctx = Ctx::from_args();
    if !firv::exec::host_ok() {
        println!("INCONCLUSIVE host lacks sse4.1/avx2");
        std::process::exit(2);
    }
    match ctx.prop.as_str() {
        "NOOP" => return,
        "C03" => c03::run(&mut ctx),
        "C04" => c04::run(&mut ctx),
        "C05" => c05::run(&mut ctx),
        "C13" => c13::run(&mut ctx),
        "C14" => c14::run(&mut ctx),
        p => panic!("unknown property {}", p),
    }
    ctx.finish();
}
