//! Monitors over plain typed images: C01 C02 C07 C10 C11 C12 C18.
#[path = "../monitors/c01.rs"]
mod c01;

use firv::run::Ctx;

fn main() {
    let mut ctx = Ctx::from_args();
    if !firv::exec::host_ok() {
        println!("INCONCLUSIVE host lacks sse4.1/avx2");
        std::process::exit(2);
    }
    match ctx.prop.as_str() {
        "C01" => c01::run(&mut ctx),
        p => panic!("unknown property {}", p),
    }
    ctx.finish();
}
