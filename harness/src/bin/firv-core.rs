//! Monitors over plain typed images: C01 C02 C07 C10 C11 C12 C18.
#[path = "../monitors/c01.rs"]
mod c01;
#[path = "../monitors/c02.rs"]
mod c02;
#[path = "../monitors/c07.rs"]
mod c07;
#[path = "../monitors/c10.rs"]
mod c10;
#[path = "../monitors/c11.rs"]
mod c11;
#[path = "../monitors/c12.rs"]
mod c12;
#[path = "../monitors/c18.rs"]
mod c18;

use firv::run::Ctx;

fn main() {
    let mut ctx = Ctx::from_args();
    if !firv::exec::host_ok() {
        println!("INCONCLUSIVE host lacks sse4.1/avx2");
        std::process::exit(2);
    }
    match ctx.prop.as_str() {
        "NOOP" => return,
        "C01" => c01::run(&mut ctx),
        "C02" => c02::run(&mut ctx),
        "C07" => c07::run(&mut ctx),
        "C10" => c10::run(&mut ctx),
        "C11" => c11::run(&mut ctx),
        "C12" => c12::run(&mut ctx),
        "C18" => c18::run(&mut ctx),
        p => panic!("unknown property {}", p),
    }
    ctx.finish();
}
