//! Counts the distinct u64 values (little endian) in the files given as arguments: the union of the shards'
//! hashes of distinct non-trivial cases, for runs too big for a Python set.
use std::io::Read;
fn main() {
    let mut all: Vec<u64> = Vec::new();
    for p in std::env::args().skip(1) {
        let mut b = Vec::new();
        if std::fs::File::open(&p).and_then(|mut f| f.read_to_end(&mut b)).is_ok() {
            all.extend(b.chunks_exact(8).map(|c| u64::from_le_bytes(c.try_into().unwrap())));
        }
    }
    all.sort_unstable();
    all.dedup();
    println!("{}", all.len());
}
