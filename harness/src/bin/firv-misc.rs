//! Monitors that need no image containers beyond plain ones: C06 C09 C15 C16 C17.
#[path = "../monitors/c06.rs"]
mod c06;
#[path = "../monitors/c09.rs"]
mod c09;
#[path = "../monitors/c15.rs"]
mod c15;
#[path = "../monitors/c16.rs"]
mod c16;
#[path = "../monitors/c17.rs"]
mod c17;

use firv::run::Ctx;

fn main() {
    let mut ctx = Ctx::from_args();
    if !firv::exec::host_ok() {
        println!("INCONCLUSIVE host lacks sse4.1/avx2");
        std::process::exit(2);
    }
    match ctx.prop.as_str() {
        "NOOP" => return,
        "C06" => c06::run(&mut ctx),
        "C09" => c09::run(&mut ctx),
        "C15" => c15::run(&mut ctx),
        "C16" => c16::run(&mut ctx),
        "C17" => c17::run(&mut ctx),
        p => panic!("unknown property {}", p),
    }
    ctx.finish();
}
