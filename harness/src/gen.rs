//! Case generators: a stratified enumeration that guarantees the classes the properties
//! quantify over, followed by seeded random cases.
use crate::px::*;
use crate::rng::Rng;
use crate::spec::*;
use fast_image_resize::PixelType;

#[derive(Clone)]
pub struct GenOpts<'a> {
    pub pts: &'a [PixelType],
    pub filters: &'a [Filt],
    pub conv: bool,
    pub interp: bool,
    pub supers: bool,
    pub nearest: bool,
    /// 0: alpha handling off, 1: on, 2: random
    pub alpha_mode: u8,
    pub max_side: u32,
    pub strip_max: u32,
    pub crops: bool,
    pub fit: bool,
    /// content policy: 0 general (random, extremes, checkerboards...), 1 moderate floats only
    pub content_mode: u8,
}

impl<'a> GenOpts<'a> {
    pub fn conv_all(pts: &'a [PixelType]) -> Self {
        GenOpts {
            pts,
            filters: &BUILTIN,
            conv: true,
            interp: true,
            supers: true,
            nearest: false,
            alpha_mode: 0,
            max_side: 70,
            strip_max: 4096,
            crops: true,
            fit: true,
            content_mode: 0,
        }
    }
}

/// next f64 towards minus infinity
pub fn pred(x: f64) -> f64 {
    if x.is_nan() || x == f64::NEG_INFINITY {
        x
    } else if x == 0.0 {
        -f64::from_bits(1)
    } else if x > 0.0 {
        f64::from_bits(x.to_bits() - 1)
    } else {
        f64::from_bits(x.to_bits() + 1)
    }
}

pub fn gen_content(rng: &mut Rng, kind: CompKind) -> Content {
    let seed = rng.next();
    let (lo, hi) = match kind {
        CompKind::U8 => (0.0, 255.0),
        CompKind::U16 => (0.0, 65535.0),
        CompKind::I32 => (i32::MIN as f64, i32::MAX as f64),
        CompKind::F32 => (0.0, 1.0),
    };
    // a sub-range anywhere inside the component range
    let sub = |rng: &mut Rng| -> (f64, f64) {
        match kind {
            CompKind::F32 => match rng.below(12) {
                0..=2 => (0.0, 1.0),
                3..=5 => (-1000.0, 1000.0),
                6 | 7 => (0.0, 1e-3),
                // denormal inputs and results (f32 spacing 2^-149), and values near the top of the f32 range
                8 => (0.0, 1e-40),
                9 => (-3.0e37, 3.0e37),
                _ => (-1.0, 1.0),
            },
            _ => {
                let a = lo + (hi - lo) * rng.unit();
                let b = lo + (hi - lo) * rng.unit();
                match rng.below(4) {
                    0 => (lo, b.max(a)),
                    1 => (a.min(b), hi),
                    _ => (a.min(b).round(), a.max(b).round()),
                }
            }
        }
    };
    let k = rng.below(16);
    match k {
        0..=4 => {
            let (a, b) = if kind == CompKind::F32 { sub(rng) } else { (lo, hi) };
            Content { kind: 0, seed, a, b }
        }
        5 => Content { kind: 1, seed, a: *rng.pick(&[lo, hi, (lo + hi) / 2.0]), b: 0.0 },
        6 => Content { kind: 2, seed, a: lo, b: hi },
        7 => Content { kind: 3, seed, a: hi, b: lo },
        8 => Content { kind: 4, seed, a: lo, b: hi },
        9 => Content { kind: 5, seed, a: lo, b: hi },
        10 => Content { kind: 5, seed, a: hi, b: lo },
        11 => Content { kind: 6, seed, a: lo, b: hi },
        12 => Content { kind: 7, seed, a: lo, b: hi },
        13 => Content { kind: 7, seed, a: hi, b: lo },
        _ => {
            let (a, b) = sub(rng);
            Content { kind: 8, seed, a, b }
        }
    }
}

pub fn gen_alpha_pat(rng: &mut Rng) -> AlphaPat {
    AlphaPat { kind: *rng.pick(&[0u8, 0, 1, 2, 3, 4, 5, 6, 7, 8, 9, 10, 11, 11, 12, 12]), seed: rng.next() }
}

/// A valid crop box (inside the image, positive area), of the kinds the properties name.
pub fn gen_crop(rng: &mut Rng, sw: u32, sh: u32) -> Crop {
    let (w, h) = (sw as f64, sh as f64);
    match rng.below(10) {
        0 | 1 => Crop::None,
        9 => {
            // coordinates a hair away from whole numbers (an ulp, 2^-31, 1e-12): code that decides "is this a whole number"
            // with a tolerance and code that truncates must still agree on which pixels the box covers
            if sw < 3 || sh < 3 {
                return Crop::None;
            }
            let l0 = rng.range(1, (sw - 2) as u64) as f64;
            let t0 = rng.range(1, (sh - 2) as u64) as f64;
            let cw0 = rng.range(1, (w - 1.0 - l0) as u64) as f64;
            let ch0 = rng.range(1, (h - 1.0 - t0) as u64) as f64;
            let mut nudge = |v: f64| -> f64 {
                let d = match rng.below(8) {
                    0 | 1 => 0.0,
                    2 => v - pred(v),
                    3 => 2.0 * (v - pred(v)),
                    4 => 2f64.powi(-31),
                    5 => 1e-12,
                    6 => 4e-15 * v.max(1.0),
                    _ => 2f64.powi(-20),
                };
                if rng.chance(1, 2) { v - d } else { v + d }
            };
            let (l, t, cw, ch) = (nudge(l0), nudge(t0), nudge(cw0), nudge(ch0));
            if l >= 0.0 && t >= 0.0 && cw > 0.0 && ch > 0.0 && l + cw <= w && t + ch <= h {
                Crop::Box([l, t, cw, ch])
            } else {
                Crop::Box([l0, t0, cw0, ch0])
            }
        }
        2 => {
            // integer
            let l = rng.below(sw as u64) as f64;
            let t = rng.below(sh as u64) as f64;
            let cw = 1.0 + rng.below((w - l) as u64) as f64;
            let ch = 1.0 + rng.below((h - t) as u64) as f64;
            Crop::Box([l, t, cw, ch])
        }
        3 => {
            // fractional
            let l = rng.unit() * w * 0.7;
            let t = rng.unit() * h * 0.7;
            let cw = (w - l) * (0.05 + 0.95 * rng.unit());
            let ch = (h - t) * (0.05 + 0.95 * rng.unit());
            Crop::Box([l, t, cw, ch])
        }
        4 => {
            // touching right/bottom edge
            let l = rng.unit() * w * 0.9;
            let t = rng.unit() * h * 0.9;
            Crop::Box([l, t, w - l, h - t])
        }
        5 => {
            // integer origin, fractional size (one pass may be skipped on the other axis)
            let l = rng.below(sw as u64) as f64;
            let t = rng.below(sh as u64) as f64;
            let cw = (w - l) * (0.3 + 0.7 * rng.unit());
            Crop::Box([l, t, cw, 1.0 + rng.below((h - t) as u64) as f64])
        }
        6 => {
            // sub-pixel box flush against the right and/or bottom edge
            let ulps = rng.range(1, 3) as f64;
            let ex = w - pred(w);
            let ey = h - pred(h);
            let cw = if rng.chance(1, 2) { ex * ulps } else { (w * rng.unit()).max(ex) };
            let ch = if rng.chance(1, 2) { ey * ulps } else { (h * rng.unit()).max(ey) };
            let l = w - cw;
            let t = h - ch;
            if l >= 0.0 && t >= 0.0 && l + cw <= w && t + ch <= h && cw > 0.0 && ch > 0.0 {
                Crop::Box([l, t, cw, ch])
            } else {
                Crop::None
            }
        }
        7 => {
            // tiny box somewhere inside
            let l = rng.unit() * w * 0.99;
            let t = rng.unit() * h * 0.99;
            let cw = ((w - l) * 1e-3 * rng.unit()).max(1e-9).min(w - l);
            let ch = ((h - t) * rng.unit()).max(1e-9).min(h - t);
            Crop::Box([l, t, cw, ch])
        }
        _ => Crop::Fit(rng.unit() * 1.4 - 0.2, rng.unit() * 1.4 - 0.2),
    }
}

fn gen_alg(rng: &mut Rng, o: &GenOpts) -> Alg {
    let f = *rng.pick(o.filters);
    let mut kinds = Vec::new();
    if o.conv {
        kinds.push(0);
        kinds.push(0);
    }
    if o.interp {
        kinds.push(1);
    }
    if o.supers {
        kinds.push(2);
    }
    if o.nearest {
        kinds.push(3);
    }
    match *rng.pick(&kinds) {
        0 => Alg::Conv(f),
        1 => Alg::Interp(f),
        2 => Alg::Super(f, *rng.pick(&[1u8, 1, 2, 2, 3, 4, 255])),
        _ => Alg::Nearest,
    }
}

/// Number of cases in the stratified prefix (one full cycle).
pub const STRAT_CYCLE: u64 = 13 * 3 * 960;

/// Stratified case `i`: (pixel type) x (H-only, V-only, both passes) x (dst extent 1..=40) x
/// (target kernel length 1..=24) so that every `row bytes mod 32`, `len mod 8`, `rows mod 4`
/// class occurs for every pixel type and pass.
pub fn strat_case(rng: &mut Rng, i: u64, o: &GenOpts) -> RCase {
    let pt = o.pts[(i % 13) as usize % o.pts.len()];
    let dir = (i / 13) % 3;
    let j = i / 39;
    let a = 1 + (j % 40) as u32;
    let len = 1 + (((j % 24) + (j / 120)) % 24) as u32;
    let r = 1 + ((j / 7) % 9) as u32;
    let len2 = 1 + (len + 5) % 24;
    let up = |d: u32, l: u32| -> u32 { ((d as u64 * l as u64 + 1) / 2).max(1) as u32 };
    let (sw, sh, dw, dh) = match dir {
        0 => (up(a, len), r, a, r),
        1 => (a, up(r, len), a, r),
        _ => (up(a, len), up(r, len2), a, r),
    };
    let f = o.filters[((j / 3) % o.filters.len() as u64) as usize];
    let alg = match (j / 5) % 6 {
        0 if o.interp => Alg::Interp(f),
        1 if o.supers => Alg::Super(f, 1 + (j % 3) as u8),
        _ => Alg::Conv(f),
    };
    let (mut dw, mut dh) = (dw, dh);
    let crop = if o.crops && j % 4 == 1 && sw > 2 && sh > 1 {
        // integer offset so that the pass starts inside the source; the single-pass classes stay single-pass:
        // the dimension that is not resampled takes the size of the crop
        let t0 = (sh > 2) as u32;
        if dir == 0 {
            dh = sh - t0;
        }
        if dir == 1 {
            dw = sw - 1;
        }
        Crop::Box([1.0, t0 as f64, (sw - 1) as f64, (sh - t0) as f64])
    } else {
        Crop::None
    };
    let use_alpha = match o.alpha_mode {
        0 => false,
        1 => true,
        _ => rng.chance(1, 2),
    };
    RCase {
        pt,
        sw,
        sh,
        dw,
        dh,
        crop,
        alg,
        use_alpha,
        content: gen_content(rng, pt_kind(pt)),
        alpha: if pt_has_alpha(pt) && use_alpha { Some(gen_alpha_pat(rng)) } else { None },
    }
}

pub fn random_case(rng: &mut Rng, o: &GenOpts) -> RCase {
    let pt = *rng.pick(o.pts);
    let strip = o.strip_max > o.max_side && rng.chance(1, 12);
    let (sw, sh, dw, dh);
    if strip {
        let mut long_s = rng.size(o.strip_max);
        let mut long_d = rng.size(o.strip_max.min(2048));
        if o.strip_max >= 4096 && rng.chance(1, 20) {
            // both extents long (indices, offsets and products of extents beyond 2^16 / 2^32 along one axis)
            const L: [u32; 12] = [4095, 4097, 8191, 8193, 16385, 32767, 32769, 65535, 65536, 65537, 70001, 46341];
            long_s = *rng.pick(&L) + rng.below(2) as u32;
            long_d = *rng.pick(&L) + rng.below(2) as u32;
        }
        let short_s = rng.range(1, 3) as u32;
        let short_d = rng.range(1, 3) as u32;
        if rng.chance(1, 2) {
            sw = long_s;
            dw = long_d;
            sh = short_s;
            dh = short_d;
        } else {
            sh = long_s;
            dh = long_d;
            sw = short_s;
            dw = short_d;
        }
    } else {
        sw = rng.size(o.max_side);
        // a square source now and then
        sh = if rng.chance(1, 12) { sw } else { rng.size(o.max_side) };
        // same size on one axis now and then (single pass)
        dw = if rng.chance(1, 8) { sw } else { rng.size(o.max_side) };
        dh = if rng.chance(1, 8) { sh } else { rng.size(o.max_side) };
    }
    let mut crop = if o.crops { gen_crop(rng, sw, sh) } else { Crop::None };
    if !o.fit {
        if let Crop::Fit(..) = crop {
            crop = Crop::None;
        }
    }
    let (mut dw, mut dh) = (dw, dh);
    if o.crops && sw >= 3 && sh >= 3 && rng.chance(1, 14) {
        // pure sub-pixel shift: the crop box has an integer size equal to the destination and a fractional
        // (or half-integer, or one-axis-integer) origin
        let w = rng.range(1, (sw - 1) as u64) as f64;
        let mut h = rng.range(1, (sh - 1) as u64) as f64;
        if rng.chance(1, 4) && w <= (sh - 1) as f64 {
            // square box (and destination): both passes see "the same" sizes, only the origins differ
            h = w;
        }
        let frac = |rng: &mut Rng, room: f64| -> f64 {
            match rng.below(4) {
                0 => (room * rng.unit()).floor(),
                1 => ((room * rng.unit()).floor() + 0.5).min(room),
                _ => room * rng.unit(),
            }
        };
        let l = frac(rng, sw as f64 - w);
        let t = frac(rng, sh as f64 - h);
        if l + w <= sw as f64 && t + h <= sh as f64 {
            crop = Crop::Box([l, t, w, h]);
            dw = w as u32;
            dh = h as u32;
        }
    }
    if let Crop::Box(b) = crop {
        // a box whose size is a hair away from a whole number: the destination often has that whole size
        if b[2] != b[2].round() && (b[2] - b[2].round()).abs() < 1e-5 && b[2].round() >= 1.0 && rng.chance(2, 3) {
            dw = b[2].round() as u32;
        }
        if b[3] != b[3].round() && (b[3] - b[3].round()).abs() < 1e-5 && b[3].round() >= 1.0 && rng.chance(2, 3) {
            dh = b[3].round() as u32;
        }
    }
    if let Crop::Box(b) = crop {
        // single-pass geometries with a crop offset: one destination dimension equals an integer crop dimension
        if b[0] == b[0].round() && b[2] == b[2].round() && b[2] >= 1.0 && rng.chance(1, 5) {
            dw = b[2] as u32;
        }
        if b[1] == b[1].round() && b[3] == b[3].round() && b[3] >= 1.0 && rng.chance(1, 5) {
            dh = b[3] as u32;
        }
    }
    let use_alpha = match o.alpha_mode {
        0 => false,
        1 => true,
        _ => rng.chance(1, 2),
    };
    RCase {
        pt,
        sw,
        sh,
        dw,
        dh,
        crop,
        alg: gen_alg(rng, o),
        use_alpha,
        content: gen_content(rng, pt_kind(pt)),
        alpha: if pt_has_alpha(pt) && use_alpha { Some(gen_alpha_pat(rng)) } else { None },
    }
}

/// Case `idx` of a run: the stratified prefix, then random cases.
pub fn resize_case(seed: u64, domain: &str, idx: u64, strat: u64, o: &GenOpts) -> RCase {
    let mut rng = Rng::for_case(seed, domain, idx);
    if idx < strat {
        // the seed rotates which stratified cases come first, not which classes exist
        let i = (idx + crate::rng::mix(seed) % STRAT_CYCLE) % STRAT_CYCLE;
        strat_case(&mut rng, i, o)
    } else {
        random_case(&mut rng, o)
    }
}
