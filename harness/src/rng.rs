//! SplitMix64: small, seedable, and every case index gets an independent stream.

#[derive(Clone, Debug)]
pub struct Rng(pub u64);

pub fn mix(mut z: u64) -> u64 {
    z = z.wrapping_add(0x9E3779B97F4A7C15);
    z = (z ^ (z >> 30)).wrapping_mul(0xBF58476D1CE4E5B9);
    z = (z ^ (z >> 27)).wrapping_mul(0x94D049BB133111EB);
    z ^ (z >> 31)
}

/// FNV-1a over bytes, finished with `mix` (used for hashing case descriptors).
pub fn hash_bytes(b: &[u8]) -> u64 {
    let mut h: u64 = 0xcbf29ce484222325;
    for &x in b {
        h ^= x as u64;
        h = h.wrapping_mul(0x100000001b3);
    }
    mix(h)
}

impl Rng {
    /// Independent stream for (seed, domain, index).
    pub fn for_case(seed: u64, domain: &str, index: u64) -> Self {
        let d = hash_bytes(domain.as_bytes());
        Rng(mix(mix(seed ^ 0xA5A5_5A5A_1234_5678) ^ d).wrapping_add(mix(index.wrapping_mul(0xD1B54A32D192ED03))))
    }
    pub fn next(&mut self) -> u64 {
        self.0 = self.0.wrapping_add(0x9E3779B97F4A7C15);
        let mut z = self.0;
        z = (z ^ (z >> 30)).wrapping_mul(0xBF58476D1CE4E5B9);
        z = (z ^ (z >> 27)).wrapping_mul(0x94D049BB133111EB);
        z ^ (z >> 31)
    }
    /// uniform in 0..n (n > 0)
    pub fn below(&mut self, n: u64) -> u64 {
        debug_assert!(n > 0);
        ((self.next() as u128 * n as u128) >> 64) as u64
    }
    /// uniform in lo..=hi
    pub fn range(&mut self, lo: u64, hi: u64) -> u64 {
        lo + self.below(hi - lo + 1)
    }
    pub fn unit(&mut self) -> f64 {
        (self.next() >> 11) as f64 / (1u64 << 53) as f64
    }
    pub fn chance(&mut self, num: u64, den: u64) -> bool {
        self.below(den) < num
    }
    pub fn pick<'a, T>(&mut self, xs: &'a [T]) -> &'a T {
        &xs[self.below(xs.len() as u64) as usize]
    }
    /// size biased to small values and to vector-width boundaries
    pub fn size(&mut self, max: u32) -> u32 {
        let max = max.max(1) as u64;
        match self.below(10) {
            0 => 1,
            1 => self.range(1, 4.min(max)) as u32,
            2 => {
                // around multiples of 8/16/32
                let base = *self.pick(&[8u64, 16, 32, 64]);
                let k = self.range(1, (max / base).max(1));
                let d = self.range(0, 2) as i64 - 1;
                ((base * k) as i64 + d).clamp(1, max as i64) as u32
            }
            _ => self.range(1, max) as u32,
        }
    }
}
