//! Thread pools (only with the `rayon` feature; otherwise the closure just runs).
#[cfg(feature = "rayon")]
pub fn install<R: Send>(threads: usize, f: impl FnOnce() -> R + Send) -> R {
    use std::cell::RefCell;
    use std::collections::HashMap;
    use std::rc::Rc;
    thread_local! {
        static POOLS: RefCell<HashMap<usize, Rc<rayon::ThreadPool>>> = RefCell::new(HashMap::new());
    }
    let pool = POOLS.with(|p| {
        p.borrow_mut()
            .entry(threads)
            .or_insert_with(|| Rc::new(rayon::ThreadPoolBuilder::new().num_threads(threads).build().expect("thread pool")))
            .clone()
    });
    pool.install(f)
}

#[cfg(not(feature = "rayon"))]
pub fn install<R>(_threads: usize, f: impl FnOnce() -> R) -> R {
    f()
}

pub fn enabled() -> bool {
    cfg!(feature = "rayon")
}
