//! Thread pools (only with the `rayon` feature; otherwise the closure just runs).
//!
//! Pools are cached per size, but the number of cached worker threads is capped: a shard that has used every size
//! 1..=32 and a few huge ones would otherwise hold ~700 idle threads, and 16 shards of that exhaust the host's
//! thread limit (seen as `ThreadPoolBuildError … WouldBlock` in a loaded sandbox). Failing to create a thread is a
//! resource problem of the host, never a verdict: after retries the case panics with the `RESOURCE_MARK` prefix,
//! which `run::Ctx::drive` turns into an inconclusive shard.

/// Prefix of a panic message that means "the host could not provide a resource", not "the library failed".
pub const RESOURCE_MARK: &str = "FIRV-RESOURCE";

#[cfg(feature = "rayon")]
pub struct Pools {
    pools: Vec<(usize, std::sync::Arc<rayon::ThreadPool>)>,
    cap: usize,
}

#[cfg(feature = "rayon")]
impl Pools {
    pub fn new() -> Pools {
        Pools { pools: Vec::new(), cap: 160 }
    }
    fn threads(&self) -> usize {
        self.pools.iter().map(|p| p.0).sum()
    }
    pub fn get(&mut self, n: usize) -> std::sync::Arc<rayon::ThreadPool> {
        if let Some(i) = self.pools.iter().position(|p| p.0 == n) {
            let p = self.pools.remove(i);
            self.pools.push(p);
            return self.pools.last().unwrap().1.clone();
        }
        // evict the least recently used pools (dropping a pool ends its threads)
        while !self.pools.is_empty() && self.threads() + n > self.cap {
            self.pools.remove(0);
        }
        if std::env::var_os("FIRV_TEST_POOL_FAIL").is_some() && n > 4 {
            // self-test of the verdict path only: behave as if the host refused the threads
            panic!("{}: cannot create a pool of {} threads: simulated", RESOURCE_MARK, n);
        }
        let mut wait = 50u64;
        for attempt in 0..14 {
            match rayon::ThreadPoolBuilder::new().num_threads(n).build() {
                Ok(p) => {
                    self.pools.push((n, std::sync::Arc::new(p)));
                    return self.pools.last().unwrap().1.clone();
                }
                Err(e) => {
                    self.pools.clear();
                    if attempt == 13 {
                        panic!("{}: cannot create a pool of {} threads: {:?}", RESOURCE_MARK, n, e);
                    }
                    std::thread::sleep(std::time::Duration::from_millis(wait));
                    wait = (wait * 2).min(4000);
                }
            }
        }
        unreachable!()
    }
}

#[cfg(feature = "rayon")]
pub fn install<R: Send>(threads: usize, f: impl FnOnce() -> R + Send) -> R {
    use std::cell::RefCell;
    thread_local! {
        static POOLS: RefCell<Pools> = RefCell::new(Pools::new());
    }
    let pool = POOLS.with(|p| p.borrow_mut().get(threads));
    pool.install(f)
}

#[cfg(not(feature = "rayon"))]
pub fn install<R>(_threads: usize, f: impl FnOnce() -> R) -> R {
    f()
}

pub fn enabled() -> bool {
    cfg!(feature = "rayon")
}
