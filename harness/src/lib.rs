//! firv: runtime monitors for fast_image_resize (see /verif/DESIGN.md).
pub mod containers;
pub mod content;
pub mod exec;
pub mod pool;
pub mod px;
pub mod refmodel;
pub mod rng;
pub mod run;
pub mod spec;
pub mod gen;

pub use fast_image_resize as fr;
pub use serde_json;
