//! C13: the result does not depend on the container or memory layout of the images.
use firv::containers::*;
use firv::content::*;
use firv::exec::*;
use firv::fr;
use firv::gen::*;
use firv::px::*;
use firv::rng::Rng;
use firv::run::*;
use firv::serde_json::{json, Value};
use firv::spec::*;
use firv::{with_alpha_px, with_dyn_dst, with_dyn_src, with_px, with_typed_dst, with_typed_src};
use fr::images::*;
use fr::{MulDiv, PixelType};

pub struct CCase {
    pub c: RCase,
    pub sk: SrcKind,
    pub sp: Place,
    pub dk: DstKind,
    pub dp: Place,
    pub ext: Ext,
    /// 0 resize, 1 multiply, 2 divide, 3 multiply in place, 4 divide in place
    pub op: u8,
}

pub fn describe(cc: &CCase) -> Value {
    let mut v = cc.c.to_json();
    v["src_container"] = json!({"kind": format!("{:?}", cc.sk), "place": cc.sp.to_json()});
    v["dst_container"] = json!({"kind": format!("{:?}", cc.dk), "place": cc.dp.to_json()});
    v["backend"] = json!(cc.ext.name());
    v["op"] = json!(["resize", "multiply_alpha", "divide_alpha", "multiply_alpha_inplace", "divide_alpha_inplace", "srgb_forward_map", "change_type_of_pixel_components"][cc.op as usize]);
    v
}

pub fn gen_pair(rng: &mut Rng) -> (SrcKind, DstKind) {
    loop {
        let s = *rng.pick(&SRC_KINDS);
        let d = *rng.pick(&DST_KINDS);
        if pair_supported(s, d) {
            return (s, d);
        }
    }
}

pub fn gen_ccase(seed: u64, domain: &str, idx: u64, o: &GenOpts, exact_only: bool) -> CCase {
    let mut rng = Rng::for_case(seed, domain, idx);
    let mut c = random_case(&mut rng, o);
    c.pt = o.pts[(idx % o.pts.len() as u64) as usize];
    c.content = gen_content(&mut rng, pt_kind(c.pt));
    c.alpha = if pt_has_alpha(c.pt) { Some(gen_alpha_pat(&mut rng)) } else { None };
    let op = if pt_has_alpha(c.pt) && rng.chance(1, 4) { rng.range(1, 4) as u8 } else { 0 };
    let (mut sk, mut dk) = gen_pair(&mut rng);
    if op != 0 {
        // alpha operations: typed Ref/Crop or dynamic DynRef/DynCrop sources
        sk = if dk.is_dyn() { *rng.pick(&[SrcKind::DynRef, SrcKind::DynCrop]) } else { *rng.pick(&[SrcKind::Ref, SrcKind::Crop, SrcKind::User]) };
        if sk == SrcKind::DynCrop && dk != DstKind::DynImage {
            dk = DstKind::DynImage;
        }
        c.dw = c.sw;
        c.dh = c.sh;
        c.crop = Crop::None;
    }
    let sp = gen_place(&mut rng, c.sw, c.sh, sk.is_crop(), exact_only);
    let dp = gen_place(&mut rng, c.dw, c.dh, dk.is_crop(), exact_only);
    CCase { c, sk, sp, dk, dp, ext: *rng.pick(&ALL_EXT), op }
}

pub fn run(ctx: &mut Ctx) {
    let mut o = GenOpts::conv_all(&ALL_PT);
    o.alpha_mode = 2;
    o.nearest = true;
    o.max_side = 40;
    o.strip_max = 300;
    let total = ctx.n;
    let seed = ctx.seed;
    // threads step: the container under test is used inside a rayon pool (bands are made by splitting the views),
    // the plain reference in a 1-thread pool
    let threads_step = ctx.sub == "threads";
    if threads_step {
        assert!(firv::pool::enabled(), "the threads step needs the rayon feature");
        o.max_side = 110;
    }
    let nearest_edge = ctx.sub == "nearest_edge";
    ctx.drive(
        total,
        |_, idx| {
            let mut cc = gen_ccase(seed, "C13", idx, &o, false);
            if !nearest_edge && !threads_step && idx % 11 == 3 {
                // colour mapping (op 5, 8/16-bit types) and component conversion (op 6) through the dynamic containers, the mutable
                // cropped view in the source role included
                let mut rng = Rng::for_case(seed, "C13map", idx);
                let c = &mut cc.c;
                cc.op = if matches!(pt_kind(c.pt), CompKind::U8 | CompKind::U16) && rng.chance(1, 2) { 5 } else { 6 };
                cc.sk = *rng.pick(&[SrcKind::DynRef, SrcKind::DynCrop, SrcKind::DynCropMutSrc, SrcKind::DynCropMutSrc]);
                cc.dk = *rng.pick(&[DstKind::DynImage, DstKind::DynCropMut]);
                c.sw = c.sw.max(1);
                c.sh = c.sh.max(1);
                c.dw = c.sw;
                c.dh = c.sh;
                c.crop = Crop::None;
                cc.sp = gen_place(&mut rng, c.sw, c.sh, cc.sk.is_crop(), false);
                cc.dp = gen_place(&mut rng, c.dw, c.dh, cc.dk.is_crop(), false);
            }
            if nearest_edge {
                // C11's hardest geometry through every container: Nearest with a sub-pixel crop box flush against
                // the right/bottom edge of the (possibly cropped) source view
                let mut rng = Rng::for_case(seed, "C13ne", idx);
                let c = &mut cc.c;
                cc.op = 0;
                c.alg = Alg::Nearest;
                c.sw = c.sw.max(2);
                c.sh = c.sh.max(2);
                let (w, h) = (c.sw as f64, c.sh as f64);
                let ex = (w - pred(w)) * rng.range(1, 2) as f64;
                let ey = (h - pred(h)) * rng.range(1, 2) as f64;
                let cw = if rng.chance(2, 3) { ex } else { (w * rng.unit() + ex).min(w) };
                let ch = if rng.chance(2, 3) { ey } else { (h * rng.unit() + ey).min(h) };
                c.crop = Crop::Box([w - cw, h - ch, cw, ch]);
                c.dw = rng.range(1, 5) as u32;
                c.dh = rng.range(1, 5) as u32;
                if !pair_supported(cc.sk, cc.dk) {
                    cc.sk = SrcKind::Crop;
                    cc.dk = DstKind::Typed;
                }
                cc.sp = gen_place(&mut rng, c.sw, c.sh, cc.sk.is_crop(), false);
                cc.dp = gen_place(&mut rng, c.dw, c.dh, cc.dk.is_crop(), false);
            }
            Some(cc)
        },
        describe,
        |cc, stats, viols| {
            let threads = if threads_step { [2usize, 3, 4, 8][(cc.c.sw as usize + cc.c.dh as usize) % 4] } else { 0 };
            let body = |stats: &mut Stats, viols: &mut Vec<Viol>| {
                if cc.op == 0 {
                    with_px!(cc.c.pt, P => exec_resize::<P>(cc, stats, viols, threads))
                } else if cc.op >= 5 {
                    with_px!(cc.c.pt, P => exec_mapchange::<P>(cc, stats, viols))
                } else {
                    with_alpha_px!(cc.c.pt, P => exec_alpha::<P>(cc, stats, viols))
                }
            };
            if threads_step {
                stats.seen("thread_pool_sizes", threads);
            }
            body(stats, viols)
        },
    );
}

fn exec_resize<P: Px>(cc: &CCase, stats: &mut Stats, viols: &mut Vec<Viol>, threads: usize) {
    let c = &cc.c;
    let src = make_pixels::<P>(c.sw, c.sh, &c.content, c.alpha.as_ref());
    let opts = c.options();
    let reference = if threads > 0 { firv::pool::install(1, || resize_vec::<P>(&src, c.sw, c.sh, c.dw, c.dh, &opts, cc.ext)) } else { resize_vec::<P>(&src, c.sw, c.sh, c.dw, c.dh, &opts, cc.ext) };
    // every third case: the surroundings of a float source view hold NaN and infinities
    let spat = if (c.sw + c.dw + c.sh) % 3 == 0 { 0x1111 | NONFINITE } else { 0x1111 };
    let mut sb = Backing::<P>::new(cc.sp, c.sw, c.sh, spat);
    sb.put(&src);
    let mut db = Backing::<P>::new(cc.dp, c.dw, c.dh, 0x2222);
    let mut r = resizer(cc.ext);
    let got = if threads > 0 { firv::pool::install(threads, || resize_through::<P>(&mut r, &sb, cc.sk, &mut db, cc.dk, &opts)) } else { resize_through::<P>(&mut r, &sb, cc.sk, &mut db, cc.dk, &opts) };
    stats.seen("container_pairs", format!("{:?}->{:?}", cc.sk, cc.dk));
    stats.nontrivial(&describe(cc));
    match (reference, got) {
        (Ok(want), Ok(())) => {
            let out = db.view_pixels();
            if P::bits_of(&out) != P::bits_of(&want) {
                let i = (0..out.len()).find(|&i| P::bits_of(&[out[i]]) != P::bits_of(&[want[i]])).unwrap();
                viols.push(
                    Viol::new("container_dependent_result", format!("{:?}->{:?} {}: pixel {} = {:?}, plain containers give {:?}", cc.sk, cc.dk, cc.ext.name(), i, out[i], want[i]))
                        .sig(json!({"pt": P::NAME, "src": format!("{:?}", cc.sk), "dst": format!("{:?}", cc.dk)})),
                );
            }
        }
        (Err(a), Err(b)) => {
            if format!("{:?}", a) != format!("{:?}", b) {
                viols.push(Viol::new("container_dependent_error", format!("{:?} vs {:?}", a, b)));
            }
        }
        (a, b) => viols.push(Viol::new("container_dependent_outcome", format!("plain: {:?}, {:?}->{:?}: {:?}", a.map(|_| ()), cc.sk, cc.dk, b))),
    }
}

/// op 5: sRGB forward mapping P -> P; op 6: change_type_of_pixel_components P -> P (both through the dynamic entry points)
fn exec_mapchange<P: Px>(cc: &CCase, stats: &mut Stats, viols: &mut Vec<Viol>) {
    use std::sync::OnceLock;
    static MAPPER: OnceLock<fr::PixelComponentMapper> = OnceLock::new();
    let mp = MAPPER.get_or_init(fr::create_srgb_mapper);
    let c = &cc.c;
    let src = make_pixels::<P>(c.sw, c.sh, &c.content, c.alpha.as_ref());
    let call = |s: &dyn Fn(&mut Image) -> Result<(), String>| -> Result<Vec<P>, String> {
        // reference: plain owned images
        let mut d = Image::new(c.sw, c.sh, P::PT);
        s(&mut d)?;
        Ok(TypedImageRef::<P>::from_buffer(c.sw, c.sh, d.buffer()).unwrap().pixels().to_vec())
    };
    let bytes: Vec<u8> = {
        let b = unsafe { std::slice::from_raw_parts(src.as_ptr() as *const u8, src.len() * std::mem::size_of::<P>()) };
        b.to_vec()
    };
    let want = call(&|d: &mut Image| {
        // Vec<u8> of an aligned copy: go through a Backing so that the bytes are aligned for P
        let sb = Backing::<P>::new(Place::exact(c.sw, c.sh), c.sw, c.sh, 0);
        let mut sb = sb;
        sb.put(&src);
        let s = ImageRef::new(c.sw, c.sh, sb.bytes(), P::PT).map_err(|e| format!("{:?}", e))?;
        if cc.op == 5 { mp.forward_map(&s, d).map_err(|e| format!("{:?}", e)) } else { fr::change_type_of_pixel_components(&s, d).map_err(|e| format!("{:?}", e)) }
    });
    let _ = bytes;
    let mut sb = Backing::<P>::new(cc.sp, c.sw, c.sh, 0x3131);
    sb.put(&src);
    let mut db = Backing::<P>::new(cc.dp, c.sw, c.sh, 0x4141);
    stats.seen("map_change_paths", format!("{}:{:?}->{:?}", cc.op, cc.sk, cc.dk));
    stats.nontrivial(&describe(cc));
    let got: Result<(), String> = with_dyn_src!(P, &sb, cc.sk, |s| with_dyn_dst!(P, &mut db, cc.dk, |d| (if cc.op == 5 { mp.forward_map(&s, &mut d).map_err(|e| format!("{:?}", e)) } else { fr::change_type_of_pixel_components(&s, &mut d).map_err(|e| format!("{:?}", e)) })));
    match (want, got) {
        (Ok(want), Ok(())) => {
            let out = db.view_pixels();
            if P::bits_of(&out) != P::bits_of(&want) {
                let i = (0..out.len()).find(|&i| P::bits_of(&[out[i]]) != P::bits_of(&[want[i]])).unwrap();
                viols.push(
                    Viol::new("container_dependent_result", format!("op {} {:?}->{:?}: pixel {} = {:?}, plain images give {:?} (source {:?})", cc.op, cc.sk, cc.dk, i, out[i], want[i], src[i]))
                        .sig(json!({"pt": P::NAME, "op": cc.op, "src": format!("{:?}", cc.sk)})),
                );
            }
            if let Some(i) = db.first_outside_change(0x4141) {
                viols.push(Viol::new("write_outside_destination", format!("op {} {:?}->{:?}: backing pixel {} outside the view changed", cc.op, cc.sk, cc.dk, i)));
            }
        }
        (a, b) => {
            if a.is_ok() != b.is_ok() {
                viols.push(Viol::new("container_dependent_outcome", format!("op {}: plain: {:?}, {:?}->{:?}: {:?}", cc.op, a.map(|_| ()), cc.sk, cc.dk, b)));
            }
        }
    }
}

fn exec_alpha<P: Px>(cc: &CCase, stats: &mut Stats, viols: &mut Vec<Viol>) {
    let c = &cc.c;
    let src = make_pixels::<P>(c.sw, c.sh, &c.content, c.alpha.as_ref());
    let mut md = MulDiv::new();
    unsafe { md.set_cpu_extensions(cc.ext.to_fr()) };
    let divide = cc.op == 2 || cc.op == 4;
    let inplace = cc.op >= 3;
    // reference: plain typed two-image operation
    let want = {
        let s = TypedImageRef::<P>::new(c.sw, c.sh, &src).unwrap();
        let mut buf = sentinel::<P>(src.len());
        {
            let mut d = TypedImage::<P>::from_pixels_slice(c.sw, c.sh, &mut buf).unwrap();
            if divide { md.divide_alpha_typed(&s, &mut d).unwrap() } else { md.multiply_alpha_typed(&s, &mut d).unwrap() }
        }
        buf
    };
    let mut sb = Backing::<P>::new(cc.sp, c.sw, c.sh, 0x3333);
    sb.put(&src);
    let mut db = Backing::<P>::new(cc.dp, c.sw, c.sh, 0x4444);
    stats.seen("alpha_paths", format!("{}:{:?}->{:?}", cc.op, cc.sk, cc.dk));
    stats.nontrivial(&describe(cc));
    let res: Result<(), String> = if inplace {
        db.put(&src);
        if cc.dk.is_dyn() {
            with_dyn_dst!(P, &mut db, cc.dk, |d| (if divide { md.divide_alpha_inplace(&mut d) } else { md.multiply_alpha_inplace(&mut d) }).map_err(|e| format!("{:?}", e)))
        } else {
            with_typed_dst!(P, &mut db, cc.dk, |d| (if divide { md.divide_alpha_inplace_typed(&mut d) } else { md.multiply_alpha_inplace_typed(&mut d) }).map_err(|e| format!("{:?}", e)))
        }
    } else if cc.dk.is_dyn() {
        with_dyn_src!(P, &sb, cc.sk, |s| with_dyn_dst!(P, &mut db, cc.dk, |d| (if divide { md.divide_alpha(&s, &mut d) } else { md.multiply_alpha(&s, &mut d) }).map_err(|e| format!("{:?}", e))))
    } else {
        with_typed_src!(P, &sb, cc.sk, |s| with_typed_dst!(P, &mut db, cc.dk, |d| (if divide { md.divide_alpha_typed(&s, &mut d) } else { md.multiply_alpha_typed(&s, &mut d) }).map_err(|e| format!("{:?}", e))))
    };
    if let Err(e) = res {
        viols.push(Viol::new("unexpected_error", e));
        return;
    }
    let out = db.view_pixels();
    if P::bits_of(&out) != P::bits_of(&want) {
        let i = (0..out.len()).find(|&i| P::bits_of(&[out[i]]) != P::bits_of(&[want[i]])).unwrap();
        viols.push(
            Viol::new("container_dependent_result", format!("op {} {:?}->{:?} {}: pixel {} = {:?}, plain two-image typed gives {:?} (src {:?})", cc.op, cc.sk, cc.dk, cc.ext.name(), i, out[i], want[i], src[i]))
                .sig(json!({"pt": P::NAME, "op": cc.op, "dst": format!("{:?}", cc.dk)})),
        );
    }
    let _ = PixelType::U8;
}
