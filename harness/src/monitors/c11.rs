//! C11: nearest-neighbour resizing picks the source pixel under each destination centre.
use firv::exec::*;
use firv::fr;
use firv::gen::*;
use firv::px::*;
use firv::refmodel::nearest_index;
use firv::rng::Rng;
use firv::run::*;
use firv::serde_json::json;
use firv::spec::*;
use firv::with_px;

pub fn run(ctx: &mut Ctx) {
    let mut o = GenOpts::conv_all(&ALL_PT);
    o.alpha_mode = 2;
    o.nearest = true;
    o.conv = false;
    o.interp = false;
    o.supers = false;
    o.max_side = if ctx.is_miri { 9 } else { 64 };
    o.strip_max = if ctx.is_miri { 0 } else if ctx.quick() { 8192 } else { 70_000 };
    let total = ctx.n;
    let seed = ctx.seed;
    let ctx_is_miri = ctx.is_miri;
    ctx.drive(
        total,
        |_, idx| {
            let mut rng = Rng::for_case(seed, "C11", idx);
            let mut c = random_case(&mut rng, &o);
            c.pt = ALL_PT[(idx % 13) as usize];
            c.alg = Alg::Nearest;
            if !ctx_is_miri && (idx / 13) % 64 == 3 {
                // both extents long along one axis (source x destination beyond 2^31, beyond 2^32): index arithmetic in wide strips
                let a = *rng.pick(&[40_000u32, 46_341, 65_535, 65_536, 70_001, 92_682, 100_000]) + rng.below(3) as u32;
                let b = *rng.pick(&[40_000u32, 46_341, 50_003, 65_535, 65_537, 90_000, 100_000]) + rng.below(3) as u32;
                let (s2, d2) = (rng.range(1, 2) as u32, rng.range(1, 2) as u32);
                if rng.chance(1, 2) {
                    (c.sw, c.dw, c.sh, c.dh) = (a, b, s2, d2);
                } else {
                    (c.sh, c.dh, c.sw, c.dw) = (a, b, s2, d2);
                }
                c.crop = match rng.below(3) {
                    0 => Crop::None,
                    1 => {
                        // whole-numbered crop box
                        let (l, t) = (rng.below(c.sw as u64 / 4) as f64, rng.below(c.sh as u64 / 4) as f64);
                        Crop::Box([l, t, (c.sw as f64 - l - rng.below(3) as f64).max(1.0), (c.sh as f64 - t).max(1.0)])
                    }
                    _ => Crop::Box([0.25, 0.0, c.sw as f64 - 0.5, c.sh as f64]),
                };
            }
            let mut special = !ctx_is_miri && (idx / 13) % 64 == 3;
            if !ctx_is_miri && (idx / 13) % 16 == 5 {
                // reduction factors k + 0.5 for every k in 1..=640 along one axis, a few destination samples: any rule of the form
                // "more than N source rows/columns skipped between two samples" changes behaviour somewhere in this list
                special = true;
                let k = (idx / 13 / 16) % 640 + 1;
                let d = *rng.pick(&[3u32, 4, 7, 10]);
                let s = ((k as f64 + 0.5) * d as f64).round() as u32;
                let (o_s, o_d) = (rng.range(1, 3) as u32, rng.range(1, 3) as u32);
                if rng.chance(3, 4) {
                    (c.sh, c.dh, c.sw, c.dw) = (s, d, o_s, o_d);
                } else {
                    (c.sw, c.dw, c.sh, c.dh) = (s, d, o_s, o_d);
                }
                c.crop = if rng.chance(1, 3) { Crop::Box([0.0, 0.0, c.sw as f64, c.sh as f64 - 0.5]) } else { Crop::None };
            }
            if !ctx_is_miri && (idx / 13) % 32 == 7 {
                // boxes of almost no extent anywhere inside the image (1e-17 .. 5e-324): every destination pixel is the one pixel under the box
                special = true;
                let t = |rng: &mut Rng| *rng.pick(&[1e-17f64, 2.2e-16, 1e-20, 1e-100, 1e-300, 5e-324, 1e-9]);
                let (l, tp) = ((rng.unit() * c.sw as f64).min(pred(c.sw as f64)), (rng.unit() * c.sh as f64).min(pred(c.sh as f64)));
                let cw = if rng.chance(2, 3) { t(&mut rng) } else { (c.sw as f64 - l) * rng.unit() };
                let ch = if rng.chance(2, 3) { t(&mut rng) } else { (c.sh as f64 - tp) * rng.unit() };
                c.crop = Crop::Box([l, tp, cw, ch]);
                c.dw = rng.range(1, 9) as u32;
                c.dh = rng.range(1, 9) as u32;
            }
            match (idx / 13) % 8 {
                _ if special => {}
                0 => {
                    // sub-pixel crop flush against the right/bottom edge (the D2 geometry)
                    let (w, h) = (c.sw as f64, c.sh as f64);
                    let ex = (w - pred(w)) * rng.range(1, 2) as f64;
                    let ey = (h - pred(h)) * rng.range(1, 2) as f64;
                    let cw = if rng.chance(2, 3) { ex } else { w * rng.unit() + ex };
                    let ch = if rng.chance(2, 3) { ey } else { h * rng.unit() + ey };
                    let cw = cw.min(w);
                    let ch = ch.min(h);
                    c.crop = Crop::Box([w - cw, h - ch, cw, ch]);
                    c.dw = rng.range(1, 5) as u32;
                    c.dh = rng.range(1, 5) as u32;
                }
                2 => {
                    // integer origin, fractional size whose integer part is the destination size: a scale just above 1
                    if c.sw >= 3 && c.sh >= 3 {
                        let w = rng.range(1, (c.sw - 1) as u64) as f64;
                        let h = rng.range(1, (c.sh - 1) as u64) as f64;
                        let l = rng.below((c.sw as f64 - w) as u64) as f64;
                        let t = rng.below((c.sh as f64 - h) as u64) as f64;
                        let fw = if rng.chance(2, 3) { 0.5 + 0.499 * rng.unit() } else { 0.0 };
                        let fh = if fw == 0.0 || rng.chance(1, 2) { 0.5 + 0.499 * rng.unit() } else { 0.0 };
                        c.crop = Crop::Box([l, t, (w + fw).min(c.sw as f64 - l), (h + fh).min(c.sh as f64 - t)]);
                        c.dw = w as u32;
                        c.dh = h as u32;
                    }
                }
                1 => {
                    // one-pixel source, or extreme ratios
                    if rng.chance(1, 2) {
                        c.sw = 1;
                        c.sh = 1;
                        c.crop = Crop::None;
                    } else {
                        c.crop = Crop::None;
                    }
                }
                _ => {}
            }
            // the crop must be valid as the validator judges it
            if let Crop::Box(b) = c.crop {
                let ok = b.iter().all(|v| v.is_finite()) && b[0] >= 0.0 && b[1] >= 0.0 && b[2] > 0.0 && b[3] > 0.0
                    && b[0] + b[2] <= c.sw as f64 && b[1] + b[3] <= c.sh as f64 && b[0] < c.sw as f64 && b[1] < c.sh as f64;
                if !ok {
                    c.crop = Crop::None;
                }
            }
            Some(c)
        },
        |c| c.to_json(),
        |c, stats, viols| with_px!(c.pt, P => exec::<P>(c, stats, viols)),
    );
}

/// identity tags: neighbouring pixels (in x, y and diagonally) always differ
fn tagged<P: Px>(w: u32, h: u32, alpha_zero_every: u32) -> Vec<P> {
    let nc = P::NC;
    let mut v = vec![P::default(); w as usize * h as usize];
    {
        let comps = P::components_mut(&mut v);
        for y in 0..h as u64 {
            for x in 0..w as u64 {
                for ch in 0..nc as u64 {
                    let i = ((y * w as u64 + x) * nc as u64 + ch) as usize;
                    comps[i] = match P::kind() {
                        CompKind::U8 => P::C::from_bits((x * (3 + 2 * ch) + y * (7 + 4 * ch) + ch * 31) & 0xff),
                        CompKind::U16 => P::C::from_bits((x * 3 + y * 259 + ch * 4099) & 0xffff),
                        CompKind::I32 => P::C::from_bits((x.wrapping_mul(65_537).wrapping_add(y.wrapping_mul(3)).wrapping_add(0x8000_0000)) & 0xffff_ffff),
                        CompKind::F32 => P::C::from_f64(x as f64 + y as f64 * 1024.0 + ch as f64 * 0.25 - 7.0),
                    };
                }
                if P::HAS_ALPHA && alpha_zero_every > 0 && (x + y) % alpha_zero_every as u64 == 0 {
                    let i = ((y * w as u64 + x) * nc as u64 + nc as u64 - 1) as usize;
                    comps[i] = P::C::from_bits(0);
                }
            }
        }
    }
    v
}

fn exec<P: Px>(c: &RCase, stats: &mut Stats, viols: &mut Vec<Viol>) {
    let src = tagged::<P>(c.sw, c.sh, if c.use_alpha { 3 } else { 0 });
    let [l, t, cw, ch] = c.crop_box();
    let (sw, sh, dw, dh) = (c.sw as usize, c.sh as usize, c.dw as usize, c.dh as usize);
    let same_size = cw == dw as f64 && ch == dh as f64 && l == l.round() && t == t.round();
    let opts = c.options();
    if !same_size {
        stats.nontrivial(&c.to_json());
    }
    let xs: Vec<(usize, bool)> = (0..dw).map(|x| nearest_index(l, cw, x, dw, sw)).collect();
    let ys: Vec<(usize, bool)> = (0..dh).map(|y| nearest_index(t, ch, y, dh, sh)).collect();
    let flush = l + cw == sw as f64 || t + ch == sh as f64;
    if flush && (cw < 1.0 || ch < 1.0) {
        stats.count("subpixel_edge_flush_cases", 1);
    }
    let sbits = P::bits_of(&src);
    let nc = P::NC;
    // a sliding window on one long-lived Resizer: the same geometry with the crop box moved by one pixel, before the
    // case itself (what a table cached between calls and keyed on too little would get wrong)
    let mut warm = fr::Resizer::new();
    let slide = {
        let b = [l, t, cw, ch];
        let mut moved = None;
        if b[0] + b[2] + 1.0 <= sw as f64 {
            moved = Some([b[0] + 1.0, b[1], b[2], b[3]]);
        } else if b[0] >= 1.0 {
            moved = Some([b[0] - 1.0, b[1], b[2], b[3]]);
        }
        moved
    };
    if let Some(m) = slide {
        let mut c2 = c.clone();
        c2.crop = Crop::Box(m);
        let o2 = c2.options();
        unsafe { warm.set_cpu_extensions(Ext::Avx2.to_fr()) };
        let _ = resize_with::<P>(&mut warm, &src, c.sw, c.sh, c.dw, c.dh, &o2);
        stats.count("sliding_window_pairs", 1);
    }
    // each case through the specialised row stepping of TypedImageRef and through the default one (TypedImage source)
    for (k, (ext, typed_src)) in [(Ext::Avx2, false), (Ext::None, false), (Ext::Sse4, false), (Ext::Avx2, false), (Ext::Avx2, true)].into_iter().enumerate() {
        let res = if k == 0 {
            // the case on the Resizer that has just served the moved crop box
            resize_with::<P>(&mut warm, &src, c.sw, c.sh, c.dw, c.dh, &opts)
        } else if typed_src { resize_vec_typed_src::<P>(&src, c.sw, c.sh, c.dw, c.dh, &opts, ext) } else { resize_vec::<P>(&src, c.sw, c.sh, c.dw, c.dh, &opts, ext) };
        let out = match res {
            Ok(o) => o,
            Err(e) => {
                viols.push(Viol::new("unexpected_error", format!("{:?} for a valid crop {:?}", e, c.crop)));
                continue;
            }
        };
        let obits = P::bits_of(&out);
        'px: for y in 0..dh {
            for x in 0..dw {
                let got = &obits[(y * dw + x) * nc..(y * dw + x + 1) * nc];
                let (ex, ax) = xs[x];
                let (ey, ay) = ys[y];
                // candidates: the pixel under the centre; a neighbour when the centre is within noise of an integer
                let mut ok = false;
                let cxs: Vec<usize> = if ax { vec![ex.saturating_sub(1), ex, (ex + 1).min(sw - 1)] } else { vec![ex] };
                let cys: Vec<usize> = if ay { vec![ey.saturating_sub(1), ey, (ey + 1).min(sh - 1)] } else { vec![ey] };
                for &cy in &cys {
                    for &cx in &cxs {
                        if got == &sbits[(cy * sw + cx) * nc..(cy * sw + cx + 1) * nc] {
                            ok = true;
                        }
                    }
                }
                stats.count("pixels_checked", 1);
                if ax || ay {
                    stats.count("pixels_with_ambiguous_centre", 1);
                }
                if !ok {
                    viols.push(
                        Viol::new("wrong_source_pixel", format!("{}{}: dst ({},{}) = {:?}, expected source pixel ({},{}) = {:?}", ext.name(), if typed_src { " TypedImage source" } else { "" }, x, y, out[y * dw + x], ex, ey, src[ey * sw + ex]))
                            .sig(json!({"pt": P::NAME, "ext": ext.name()})),
                    );
                    break 'px;
                }
            }
        }
    }
}
