//! C10: a uniform image stays uniform.
use firv::exec::*;
use firv::gen::*;
use firv::px::*;
use firv::refmodel::geometry_class;
use firv::rng::Rng;
use firv::run::*;
use firv::serde_json::{json, Value};
use firv::spec::*;
use firv::with_px;

pub struct UCase {
    c: RCase,
    /// component values of the constant pixel, as bit patterns
    value: Vec<u64>,
}

const VERDICT_TAPS: usize = 8192;

pub fn run(ctx: &mut Ctx) {
    let mut o = GenOpts::conv_all(&ALL_PT);
    o.alpha_mode = 2;
    o.max_side = 64;
    o.strip_max = 0;
    let total = ctx.n;
    let seed = ctx.seed;
    let quick = ctx.quick();
    ctx.drive(
        total,
        |_, idx| {
            let mut rng = Rng::for_case(seed, "C10", idx);
            let mut c = random_case(&mut rng, &o);
            c.pt = ALL_PT[(idx % 13) as usize];
            let kind = pt_kind(c.pt);
            // every fourth case: a strip with an extreme scale (long kernels or extreme up-scale)
            match (idx / 13) % 4 {
                0 => {
                    let long = rng.range(2, if quick { 16_384 } else { 66_000 }) as u32;
                    let short = rng.range(1, 4) as u32;
                    let other = rng.range(1, 3) as u32;
                    let (s, d) = if rng.chance(3, 4) { (long, short) } else { (short, long.min(4096)) };
                    if rng.chance(1, 2) {
                        c.sw = s;
                        c.dw = d;
                        c.sh = other;
                        c.dh = rng.range(1, 3) as u32;
                    } else {
                        c.sh = s;
                        c.dh = d;
                        c.sw = other;
                        c.dw = rng.range(1, 3) as u32;
                    }
                    c.crop = if rng.chance(1, 3) { gen_crop(&mut rng, c.sw, c.sh) } else { Crop::None };
                }
                _ => {}
            }
            let nc = pt_nc(c.pt);
            let (lo, hi) = kind.range();
            let value: Vec<u64> = (0..nc)
                .map(|ch| {
                    let v: f64 = match kind {
                        CompKind::U8 => ((idx / 13 + ch as u64 * 97) % 256) as f64, // all 256 values in turn
                        CompKind::F32 => *rng.pick(&[0.0, 1.0, 0.5, 1.0 / 3.0, -2.75, 1e-3, 12345.678, 0.1]),
                        _ => match rng.below(7) {
                            0 => lo,
                            1 => hi,
                            2 => hi - 1.0,
                            3 => lo + 1.0,
                            4 => ((lo + hi) / 2.0).floor(),
                            _ => (lo + (hi - lo) * rng.unit()).round(),
                        },
                    };
                    match kind {
                        CompKind::U8 => (v as u8) as u64,
                        CompKind::U16 => (v as u16) as u64,
                        CompKind::I32 => (v as i32) as u32 as u64,
                        CompKind::F32 => (v as f32).to_bits() as u64,
                    }
                })
                .collect();
            let mut value = value;
            if pt_has_alpha(c.pt) && c.use_alpha {
                // alpha at its maximum
                value[nc - 1] = match kind {
                    CompKind::U8 => 255,
                    CompKind::U16 => 65535,
                    _ => 1.0f32.to_bits() as u64,
                };
            }
            Some(UCase { c, value })
        },
        |u| {
            let mut v = u.c.to_json();
            v["content"] = json!({"constant_pixel_bits": u.value.iter().map(|b| format!("{:#x}", b)).collect::<Vec<_>>()});
            v
        },
        |u, stats, viols| with_px!(u.c.pt, P => exec::<P>(u, stats, viols)),
    );
}

fn exec<P: Px>(u: &UCase, stats: &mut Stats, viols: &mut Vec<Viol>) {
    let c = &u.c;
    let comps: Vec<P::C> = u.value.iter().map(|&b| P::C::from_bits(b)).collect();
    let px = P::from_comps(&comps);
    let src = vec![px; c.sw as usize * c.sh as usize];
    let crop = c.crop_box();
    let (klen, _) = geometry_class(c.sw as usize, c.sh as usize, crop, c.dw as usize, c.dh as usize, c.alg);
    stats.max("kernel_len_max_explored", klen as f64);
    let verdict = klen <= VERDICT_TAPS;
    if verdict {
        stats.max("kernel_len_max_judged", klen as f64);
        if klen >= 2 {
            let desc: Value = json!([c.to_json(), u.value]);
            stats.nontrivial(&desc);
        }
    } else {
        stats.count("cases_beyond_verdict_domain", 1);
    }
    stats.seen("kernel_len_log2", (klen as f64).log2().floor() as i64);
    if P::kind() == CompKind::U8 {
        stats.seen("u8_values", u.value[0]);
    }
    let opts = c.options();
    let nc = P::NC;
    for ext in ALL_EXT {
        let out = match resize_vec::<P>(&src, c.sw, c.sh, c.dw, c.dh, &opts, ext) {
            Ok(o) => o,
            Err(e) => {
                viols.push(Viol::new("unexpected_error", format!("{:?}", e)));
                continue;
            }
        };
        let oc = P::components(&out);
        for i in 0..oc.len() {
            let want = comps[i % nc];
            if oc[i].bits() == want.bits() {
                continue;
            }
            let ok = P::kind() == CompKind::F32 && {
                let (x, y) = (oc[i].to_f64(), want.to_f64());
                (x - y).abs() <= ulp32_up(y.abs())
            };
            if !ok {
                if verdict {
                    viols.push(
                        Viol::new("uniform_image_changed", format!("{}: pixel {} comp {}: got {:?} want {:?} (kernel length {})", ext.name(), i / nc, i % nc, oc[i], want, klen))
                            .sig(json!({"pt": P::NAME, "ext": ext.name()})),
                    );
                } else {
                    stats.count("drift_beyond_verdict_domain", 1);
                }
                break;
            }
        }
    }
}
