//! C04: geometry validation accepts exactly the regions that lie inside the image.
use firv::exec::*;
use firv::fr;
use firv::gen::pred;
use firv::px::*;
use firv::rng::Rng;
use firv::run::*;
use firv::serde_json::json;
use firv::spec::*;
use firv::with_px;
use fr::images::*;
use fr::pixels::{InnerPixel, I32, U8x3};
use fr::{ImageBufferError, ImageView, IntoImageView, PixelType, ResizeError, ResizeOptions};

fn tag(x: u32, y: u32) -> i32 {
    (y * 1000 + x + 1) as i32
}

fn tagged(w: u32, h: u32) -> Vec<I32> {
    let mut v = Vec::with_capacity((w * h) as usize);
    for y in 0..h {
        for x in 0..w {
            v.push(I32::new(tag(x, y)));
        }
    }
    v
}

/// exact predicate for u32 rectangles
fn inside_u32(iw: u32, ih: u32, l: u32, t: u32, w: u32, h: u32) -> bool {
    (l as u64 + w as u64) <= iw as u64 && (t as u64 + h as u64) <= ih as u64
}

fn check_view<V: ImageView<Pixel = I32>>(v: &V, l: u32, t: u32, w: u32, h: u32) -> Result<(), String> {
    if v.width() != w || v.height() != h {
        return Err(format!("view reports {}x{}, requested {}x{}", v.width(), v.height(), w, h));
    }
    let mut n = 0;
    for (y, row) in v.iter_rows(0).enumerate() {
        n += 1;
        if row.len() != w as usize {
            return Err(format!("row {} has {} pixels, width is {}", y, row.len(), w));
        }
        for (x, p) in row.iter().enumerate() {
            if p.0 != tag(l + x as u32, t + y as u32) {
                return Err(format!("pixel ({},{}) is not parent pixel ({},{})", x, y, l + x as u32, t + y as u32));
            }
        }
    }
    if w > 0 && n != h as usize {
        return Err(format!("{} rows, height is {}", n, h));
    }
    Ok(())
}

const CROP_KINDS: [&str; 6] = ["CroppedImage::new", "CroppedImageMut::new", "TypedCroppedImage::new", "TypedCroppedImage::from_ref", "TypedCroppedImageMut::new", "TypedCroppedImageMut::from_ref"];

/// outcome of one constructor: Some(Ok(view check)) accepted, Some(Err) rejected
fn construct(kind: usize, iw: u32, ih: u32, q: [u32; 4]) -> Result<Result<(), String>, String> {
    let [l, t, w, h] = q;
    let mut buf = tagged(iw, ih);
    let r = match kind {
        0 => {
            let parent = ImageRef::from_pixels(iw, ih, &buf).unwrap();
            match CroppedImage::new(&parent, l, t, w, h) {
                Ok(v) => {
                    if IntoImageView::width(&v) != w || IntoImageView::height(&v) != h {
                        Ok(Err(format!("dynamic view reports {}x{}", IntoImageView::width(&v), IntoImageView::height(&v))))
                    } else {
                        Ok(check_view(&v.image_view::<I32>().unwrap(), l, t, w, h))
                    }
                }
                Err(e) => Err(format!("{:?}", e)),
            }
        }
        1 => {
            let bytes = unsafe { std::slice::from_raw_parts_mut(buf.as_mut_ptr() as *mut u8, buf.len() * 4) };
            let mut parent = Image::from_slice_u8(iw, ih, bytes, PixelType::I32).unwrap();
            match CroppedImageMut::new(&mut parent, l, t, w, h) {
                Ok(v) => Ok(check_view(&v.image_view::<I32>().unwrap(), l, t, w, h)),
                Err(e) => Err(format!("{:?}", e)),
            }
        }
        2 => {
            let parent = TypedImageRef::<I32>::new(iw, ih, &buf).unwrap();
            match TypedCroppedImage::new(parent, l, t, w, h) {
                Ok(v) => Ok(check_view(&v, l, t, w, h)),
                Err(e) => Err(format!("{:?}", e)),
            }
        }
        3 => {
            let parent = TypedImageRef::<I32>::new(iw, ih, &buf).unwrap();
            let r = match TypedCroppedImage::from_ref(&parent, l, t, w, h) {
                Ok(v) => Ok(check_view(&v, l, t, w, h)),
                Err(e) => Err(format!("{:?}", e)),
            };
            r
        }
        4 => {
            let parent = TypedImage::<I32>::from_pixels_slice(iw, ih, &mut buf).unwrap();
            match TypedCroppedImageMut::new(parent, l, t, w, h) {
                Ok(v) => Ok(check_view(&v, l, t, w, h)),
                Err(e) => Err(format!("{:?}", e)),
            }
        }
        _ => {
            let mut parent = TypedImage::<I32>::from_pixels_slice(iw, ih, &mut buf).unwrap();
            let r = match TypedCroppedImageMut::from_ref(&mut parent, l, t, w, h) {
                Ok(v) => Ok(check_view(&v, l, t, w, h)),
                Err(e) => Err(format!("{:?}", e)),
            };
            r
        }
    };
    r
}

fn judge_quad(kind: usize, iw: u32, ih: u32, q: [u32; 4], stats: &mut Stats, viols: &mut Vec<Viol>) {
    let want = inside_u32(iw, ih, q[0], q[1], q[2], q[3]);
    let zero_area = q[2] == 0 || q[3] == 0;
    stats.count("constructor_calls", 1);
    let got = construct(kind, iw, ih, q);
    let sig = json!({"ctor": CROP_KINDS[kind]});
    match got {
        Ok(view) => {
            stats.count("accepted", 1);
            if !want {
                viols.push(Viol::new("accepted_region_outside_image", format!("{} on {}x{} accepted (left,top,width,height)={:?}", CROP_KINDS[kind], iw, ih, q)).sig(sig.clone()));
            }
            if let Err(m) = view {
                if want {
                    viols.push(Viol::new("accepted_view_exposes_wrong_pixels", format!("{} on {}x{} {:?}: {}", CROP_KINDS[kind], iw, ih, q, m)).sig(sig));
                }
            }
        }
        Err(e) => {
            stats.count("rejected", 1);
            // an empty box inside the image (or on its right/bottom edge) lies inside it and must be accepted too
            let _ = zero_area;
            if want {
                viols.push(Viol::new("rejected_region_inside_image", format!("{} on {}x{} rejected {:?} with {}", CROP_KINDS[kind], iw, ih, q, e)).sig(sig));
            }
        }
    }
}

// ---------------------------------------------------------------- f64 crop boxes through resize

/// Is left+width <= limit exactly? (TwoSum gives the exact sum as s + e.) Returns (inside, knife_edge):
/// knife_edge = the exact answer and the answer in f64 arithmetic differ.
fn sum_le(a: f64, b: f64, limit: f64) -> (bool, bool) {
    let s = a + b;
    let bb = s - a;
    let e = (a - (s - bb)) + (b - bb);
    if s < limit {
        (true, false)
    } else if s > limit {
        (false, false)
    } else {
        let exact_inside = !(e > 0.0);
        (exact_inside, !exact_inside)
    }
}

fn crop_predicate(iw: u32, ih: u32, b: [f64; 4]) -> (bool, bool) {
    if !b.iter().all(|v| v.is_finite()) {
        return (false, false);
    }
    if b[0] < 0.0 || b[1] < 0.0 || b[2] < 0.0 || b[3] < 0.0 {
        return (false, false);
    }
    let (x, kx) = sum_le(b[0], b[2], iw as f64);
    let (y, ky) = sum_le(b[1], b[3], ih as f64);
    (x && y, kx || ky)
}

pub fn run(ctx: &mut Ctx) {
    match ctx.sub.as_str() {
        "quads" => run_quads(ctx),
        "boundary" => run_boundary(ctx),
        "f64crop" => run_f64crop(ctx),
        "buffers" => run_buffers(ctx),
        s => panic!("unknown sub {}", s),
    }
}

/// exhaustive: images up to N x N, all quadruples up to N+2
fn run_quads(ctx: &mut Ctx) {
    let n: u32 = if ctx.quick() { 6 } else { 9 };
    let total = ((n + 1) * (n + 1) * 6) as u64;
    ctx.stats.notes.push(format!("exhaustive: images 0..={n} x 0..={n}, quadruples 0..={} each, 6 constructors", n + 2));
    ctx.drive(
        total,
        |_, idx| Some(((idx % 6) as usize, ((idx / 6) % (n as u64 + 1)) as u32, (idx / 6 / (n as u64 + 1)) as u32)),
        |c| json!({"constructor": CROP_KINDS[c.0], "image": [c.1, c.2], "quadruples": format!("all of 0..={}", n + 2)}),
        |&(kind, iw, ih), stats, viols| {
            stats.nontrivial(&json!([kind, iw, ih]));
            let m = n + 2;
            for l in 0..=m {
                for t in 0..=m {
                    for w in 0..=m {
                        for h in 0..=m {
                            if viols.len() < 5 {
                                judge_quad(kind, iw, ih, [l, t, w, h], stats, viols);
                            }
                        }
                    }
                }
            }
        },
    );
}

fn run_boundary(ctx: &mut Ctx) {
    let sizes: [(u32, u32); 5] = [(4, 4), (1, 7), (0, 3), (6, 0), (5, 2)];
    let total = (sizes.len() * 6) as u64;
    ctx.drive(
        total,
        |_, idx| Some(((idx % 6) as usize, sizes[(idx / 6) as usize])),
        |c| json!({"constructor": CROP_KINDS[c.0], "image": [c.1 .0, c.1 .1], "quadruples": "boundary pool ^4"}),
        |&(kind, (iw, ih)), stats, viols| {
            stats.nontrivial(&json!([kind, iw, ih]));
            let pool = |e: u32| -> Vec<u32> {
                let mut v = vec![0, 1, 2, e.wrapping_sub(1), e, e + 1, 1 << 31, u32::MAX - 1, u32::MAX, u32::MAX - e, (u32::MAX - e).wrapping_add(1)];
                v.sort();
                v.dedup();
                v
            };
            let (px, py) = (pool(iw), pool(ih));
            for &l in &px {
                for &t in &py {
                    for &w in &px {
                        for &h in &py {
                            if viols.len() < 5 {
                                judge_quad(kind, iw, ih, [l, t, w, h], stats, viols);
                                if w > 8 || h > 8 || l > 8 || t > 8 {
                                    stats.count("quadruples_near_u32_max", 1);
                                }
                            }
                        }
                    }
                }
            }
        },
    );
}

fn run_f64crop(ctx: &mut Ctx) {
    let total = ctx.n;
    let seed = ctx.seed;
    ctx.drive(
        total,
        |_, idx| {
            let mut rng = Rng::for_case(seed, "C04f", idx);
            let (sw, sh) = (rng.range(1, 9) as u32, rng.range(1, 9) as u32);
            let pool = |rng: &mut Rng, e: u32| -> f64 {
                let e = e as f64;
                match rng.below(22) {
                    0 => f64::NAN,
                    1 => f64::INFINITY,
                    2 => f64::NEG_INFINITY,
                    3 => -0.0,
                    4 => -1e-300,
                    5 => -1.0,
                    6 => 0.0,
                    7 => 0.5,
                    8 => 1.0,
                    9 => e - 1.0,
                    10 => e - 0.5,
                    11 => pred(e),
                    12 => e,
                    13 => f64::from_bits(e.to_bits() + 1),
                    14 => e + 1.0,
                    15 => 1e300,
                    16 => 5e-324,
                    17 => e - pred(e),
                    18 => 1e-300,
                    19 => -1e7,
                    20 => 1e7 + e,
                    _ => e * rng.unit(),
                }
            };
            let mut b = [pool(&mut rng, sw), pool(&mut rng, sh), pool(&mut rng, sw), pool(&mut rng, sh)];
            if rng.chance(1, 2) {
                // mostly-valid boxes: non-negative finite origin, size chosen around what is left of the image
                let tame = |rng: &mut Rng, e: u32| -> f64 {
                    let e = e as f64;
                    let u = rng.unit();
                    *rng.pick(&[0.0, 0.0, 0.5, 1.0, e - 1.0, e - 0.5, pred(e), e * u, 1e-300, 5e-324, e / 3.0])
                };
                let fit = |rng: &mut Rng, e: u32, o: f64| -> f64 {
                    let room = e as f64 - o;
                    match rng.below(7) {
                        0 => room,
                        1 => pred(room),
                        2 => f64::from_bits(room.max(0.0).to_bits() + 1),
                        3 => room * rng.unit(),
                        4 => e as f64 - pred(e as f64),
                        5 => 1.0,
                        _ => room + 1e-13,
                    }
                };
                b[0] = tame(&mut rng, sw).max(0.0);
                b[1] = tame(&mut rng, sh).max(0.0);
                b[2] = fit(&mut rng, sw, b[0]);
                b[3] = fit(&mut rng, sh, b[1]);
            }
            let alg = *rng.pick(&[Alg::Nearest, Alg::Conv(Filt::Bilinear), Alg::Conv(Filt::Lanczos3), Alg::Super(Filt::Box, 2), Alg::Interp(Filt::CatmullRom)]);
            Some(RCase {
                pt: *rng.pick(&[PixelType::U8x3, PixelType::I32, PixelType::U16x2, PixelType::F32x4]),
                sw,
                sh,
                dw: rng.range(1, 7) as u32,
                dh: rng.range(1, 7) as u32,
                crop: Crop::Box(b),
                alg,
                use_alpha: rng.chance(1, 2),
                content: Content { kind: 0, seed: rng.next(), a: 0.0, b: 1.0 },
                alpha: None,
            })
        },
        |c| c.to_json(),
        |c, stats, viols| with_px!(c.pt, P => exec_f64::<P>(c, stats, viols)),
    );
}

fn exec_f64<P: Px>(c: &RCase, stats: &mut Stats, viols: &mut Vec<Viol>) {
    let Crop::Box(b) = c.crop else { return };
    let src = firv::content::make_pixels::<P>(c.sw, c.sh, &c.content, None);
    let (inside, knife) = crop_predicate(c.sw, c.sh, b);
    let zero_area = b[2] == 0.0 || b[3] == 0.0;
    stats.nontrivial(&c.to_json());
    stats.count(if inside { "boxes_inside" } else { "boxes_outside" }, 1);
    if !b.iter().all(|v| v.is_finite()) {
        stats.count("boxes_non_finite", 1);
    }
    let opts: ResizeOptions = c.options();
    // a borrowed TypedImageRef source (its own row stepping) and an owned TypedImage source (the trait's default row stepping)
    for (ext, owned) in [(Ext::None, false), (Ext::Avx2, false), (Ext::Avx2, true)] {
        let r = if owned { resize_vec_typed_src::<P>(&src, c.sw, c.sh, c.dw, c.dh, &opts, ext) } else { resize_vec::<P>(&src, c.sw, c.sh, c.dw, c.dh, &opts, ext) };
        match r {
            Ok(_) => {
                if !inside && !knife && !zero_area {
                    viols.push(Viol::new("accepted_crop_box_outside_image", format!("{}x{} image, crop box {:?} accepted", c.sw, c.sh, b)).sig(json!({"ctor": "ResizeOptions::crop"})));
                }
            }
            Err(ResizeError::SrcCroppingError(e)) => {
                if inside && !zero_area && !knife {
                    viols.push(Viol::new("rejected_crop_box_inside_image", format!("{}x{} image, crop box {:?} rejected with {:?}", c.sw, c.sh, b, e)).sig(json!({"ctor": "ResizeOptions::crop"})));
                }
            }
            Err(e) => viols.push(Viol::new("unexpected_error", format!("{:?}", e))),
        }
    }
}

// ---------------------------------------------------------------- buffer constructors

const BUF_KINDS: [&str; 9] = ["Image::from_slice_u8", "Image::from_vec_u8", "ImageRef::new", "TypedImage::from_buffer", "TypedImageRef::from_buffer", "TypedImage::from_pixels_slice", "TypedImage::from_pixels", "TypedImageRef::new", "ImageRef::from_pixels"];

#[derive(Debug)]
struct BCase {
    kind: usize,
    pt: PixelType,
    w: u32,
    h: u32,
    /// buffer length in bytes (or pixels for the pixel-slice constructors) relative to the requirement
    delta: i64,
    offset: usize,
    huge: bool,
}

fn run_buffers(ctx: &mut Ctx) {
    let total = ctx.n;
    let seed = ctx.seed;
    ctx.drive(
        total,
        |_, idx| {
            let mut rng = Rng::for_case(seed, "C04b", idx);
            let huge = idx % 5 == 4;
            let big = |rng: &mut Rng| *rng.pick(&[1u32 << 16, (1 << 16) + 1, 1 << 31, u32::MAX, u32::MAX - 1, 1 << 20, 3_000_000_000, 65_535, 1 << 30]);
            let (w, h) = if huge { (big(&mut rng), big(&mut rng)) } else { (rng.below(6) as u32, rng.below(6) as u32) };
            Some(BCase {
                kind: (idx % 9) as usize,
                pt: ALL_PT[(idx / 9 % 13) as usize],
                w,
                h,
                delta: rng.range(0, 4) as i64 - 2,
                offset: rng.below(8) as usize,
                huge,
            })
        },
        |c| json!({"constructor": BUF_KINDS[c.kind], "pixel_type": pt_name(c.pt), "size": [c.w, c.h], "length_minus_required": c.delta, "byte_offset": c.offset, "huge": c.huge}),
        |c, stats, viols| with_px!(c.pt, P => exec_buf::<P>(c, stats, viols)),
    );
}

fn exec_buf<P: Px>(c: &BCase, stats: &mut Stats, viols: &mut Vec<Viol>) {
    let psize = std::mem::size_of::<P>();
    let align = std::mem::align_of::<P>();
    let need_px: u128 = c.w as u128 * c.h as u128;
    let need_bytes: u128 = need_px * psize as u128;
    stats.nontrivial(&json!([c.kind, P::NAME, c.w, c.h, c.delta, c.offset]));
    stats.count("constructor_calls", 1);
    let pixel_ctor = c.kind >= 5;
    // the buffer: for huge sizes a short buffer (never allocate what is asked)
    let have_units: usize = if c.huge { [0usize, 1, 7, 64][(c.delta + 2) as usize % 4] } else { (if pixel_ctor { need_px } else { need_bytes } as i64 + c.delta).max(0) as usize };
    let outcome: Result<(u32, u32, Vec<Vec<u8>>), String>;
    let mut misaligned = false;
    let enough: bool;
    if pixel_ctor {
        enough = have_units as u128 >= need_px;
        let mut px: Vec<P> = (0..have_units).map(|i| firv::containers::sentinel_at::<P>(99, i)).collect();
        let expect_rows = |px: &[P]| -> Vec<Vec<u8>> {
            (0..c.h as usize).map(|y| px[y * c.w as usize..(y + 1) * c.w as usize].iter().flat_map(|p| P::bits_of(&[*p])).map(|b| b as u8).collect()).collect()
        };
        let _ = expect_rows;
        outcome = match c.kind {
            5 => {
                let copy = px.clone();
                match TypedImage::<P>::from_pixels_slice(c.w, c.h, &mut px) {
                    Ok(mut img) => Ok((img.width(), img.height(), { let mut r = rows_bits(&img, &copy); r.extend(rows_mut_count(&mut img)); r })),
                    Err(e) => Err(format!("{:?}", e)),
                }
            }
            6 => {
                let copy = px.clone();
                match TypedImage::<P>::from_pixels(c.w, c.h, px) {
                    Ok(mut img) => Ok((img.width(), img.height(), { let mut r = rows_bits(&img, &copy); r.extend(rows_mut_count(&mut img)); r })),
                    Err(e) => Err(format!("{:?}", e)),
                }
            }
            7 => match TypedImageRef::<P>::new(c.w, c.h, &px) {
                Ok(img) => Ok((img.width(), img.height(), rows_bits(&img, &px))),
                Err(e) => Err(format!("{:?}", e)),
            },
            _ => match ImageRef::from_pixels(c.w, c.h, &px) {
                Ok(img) => match img.image_view::<P>() {
                    Some(v) => Ok((IntoImageView::width(&img), IntoImageView::height(&img), rows_bits(&v, &px))),
                    None => Err("image_view returned None".into()),
                },
                Err(e) => Err(format!("{:?}", e)),
            },
        };
    } else {
        // byte buffer at a chosen offset from an 8-aligned base
        let mut store: Vec<u64> = vec![0x0102_0304_0506_0708; (have_units + c.offset) / 8 + 2];
        let base = store.as_mut_ptr() as *mut u8;
        let bytes: &mut [u8] = unsafe { std::slice::from_raw_parts_mut(base.add(c.offset), have_units) };
        for (i, b) in bytes.iter_mut().enumerate() {
            *b = (i * 7 + 3) as u8;
        }
        // an empty buffer has no address to align
        misaligned = have_units > 0 && (bytes.as_ptr() as usize) % align != 0;
        enough = have_units as u128 >= need_bytes;
        let snapshot: Vec<u8> = bytes.to_vec();
        let rows_from = |v: &dyn Fn() -> Vec<Vec<u8>>| v();
        let _ = rows_from;
        outcome = match c.kind {
            0 => match Image::from_slice_u8(c.w, c.h, bytes, P::PT) {
                Ok(img) => Ok((img.width(), img.height(), dyn_rows::<P, _>(&img, &snapshot))),
                Err(e) => Err(format!("{:?}", e)),
            },
            1 => {
                // Vec<u8>: alignment is whatever the allocator gives
                let v = snapshot.clone();
                misaligned = !v.is_empty() && (v.as_ptr() as usize) % align != 0;
                match Image::from_vec_u8(c.w, c.h, v, P::PT) {
                    Ok(img) => Ok((img.width(), img.height(), dyn_rows::<P, _>(&img, &snapshot))),
                    Err(e) => Err(format!("{:?}", e)),
                }
            }
            2 => match ImageRef::new(c.w, c.h, bytes, P::PT) {
                Ok(img) => Ok((img.width(), img.height(), dyn_rows::<P, _>(&img, &snapshot))),
                Err(e) => Err(format!("{:?}", e)),
            },
            3 => match TypedImage::<P>::from_buffer(c.w, c.h, bytes) {
                Ok(mut img) => Ok((img.width(), img.height(), { let mut r = typed_rows(&img, &snapshot); r.extend(rows_mut_count(&mut img)); r })),
                Err(e) => Err(format!("{:?}", e)),
            },
            _ => match TypedImageRef::<P>::from_buffer(c.w, c.h, bytes) {
                Ok(img) => Ok((img.width(), img.height(), typed_rows(&img, &snapshot))),
                Err(e) => Err(format!("{:?}", e)),
            },
        };
    }
    let sig = json!({"ctor": BUF_KINDS[c.kind]});
    match outcome {
        Ok((w, h, rows_ok)) => {
            stats.count("accepted", 1);
            if !enough {
                viols.push(Viol::new("accepted_short_buffer", format!("{} {} {}x{}: buffer of {} {} accepted, {} required", BUF_KINDS[c.kind], P::NAME, c.w, c.h, have_units, if pixel_ctor { "pixels" } else { "bytes" }, if pixel_ctor { need_px } else { need_bytes })).sig(sig.clone()));
            } else if misaligned {
                viols.push(Viol::new("accepted_misaligned_buffer", format!("{} {}: buffer at offset {} accepted", BUF_KINDS[c.kind], P::NAME, c.offset)).sig(sig.clone()));
            } else {
                if (w, h) != (c.w, c.h) {
                    viols.push(Viol::new("wrong_dimensions", format!("{}: reports {}x{}", BUF_KINDS[c.kind], w, h)).sig(sig.clone()));
                }
                if !rows_ok.is_empty() {
                    viols.push(Viol::new("accepted_view_exposes_wrong_pixels", format!("{} {} {}x{} over {} units: {}", BUF_KINDS[c.kind], P::NAME, c.w, c.h, have_units, String::from_utf8_lossy(&rows_ok[0]))).sig(sig));
                }
            }
        }
        Err(e) => {
            stats.count("rejected", 1);
            let size_err = e.contains("InvalidBufferSize") || e.contains("InvalidPixelsSize");
            let align_err = e.contains("InvalidBufferAlignment");
            if enough && !misaligned {
                viols.push(Viol::new("rejected_good_buffer", format!("{} {} {}x{} over {} units at offset {}: {}", BUF_KINDS[c.kind], P::NAME, c.w, c.h, have_units, c.offset, e)).sig(sig));
            } else if !(size_err && !enough) && !(align_err && misaligned) {
                viols.push(Viol::new("wrong_error", format!("{}: {} (enough={}, misaligned={})", BUF_KINDS[c.kind], e, enough, misaligned)).sig(sig));
            }
        }
    }
    let _ = ImageBufferError::InvalidBufferSize;
    let _ = U8x3::default();
}

/// rows of a typed view must be exactly h rows of w pixels with the buffer's content; returns messages (empty = fine)
fn rows_bits<P: Px, V: ImageView<Pixel = P>>(v: &V, px: &[P]) -> Vec<Vec<u8>> {
    let (w, h) = (v.width() as usize, v.height() as usize);
    let mut n = 0;
    for (y, row) in v.iter_rows(0).enumerate() {
        n += 1;
        if row.len() != w {
            return vec![format!("row {} has {} pixels", y, row.len()).into_bytes()];
        }
        if y >= h {
            return vec![format!("more than {} rows", h).into_bytes()];
        }
        if P::bits_of(row) != P::bits_of(&px[y * w..(y + 1) * w]) {
            return vec![format!("row {} does not hold the buffer's pixels", y).into_bytes()];
        }
    }
    if w > 0 && n != h {
        return vec![format!("{} rows instead of {}", n, h).into_bytes()];
    }
    vec![]
}

/// the mutable row iterator must expose exactly `height` rows of `width` pixels too
fn rows_mut_count<P: Px, V: fr::ImageViewMut<Pixel = P>>(v: &mut V) -> Vec<Vec<u8>> {
    let (w, h) = (v.width() as usize, v.height() as usize);
    let mut n = 0;
    for row in v.iter_rows_mut(0) {
        n += 1;
        if row.len() != w {
            return vec![format!("mutable row {} has {} pixels", n - 1, row.len()).into_bytes()];
        }
    }
    if w > 0 && n != h {
        return vec![format!("{} mutable rows instead of {}", n, h).into_bytes()];
    }
    vec![]
}

fn typed_rows<P: Px, V: ImageView<Pixel = P>>(v: &V, bytes: &[u8]) -> Vec<Vec<u8>> {
    let psize = std::mem::size_of::<P>();
    let (w, h) = (v.width() as usize, v.height() as usize);
    let mut n = 0;
    for (y, row) in v.iter_rows(0).enumerate() {
        n += 1;
        if row.len() != w || y >= h {
            return vec![format!("row {} has {} pixels / too many rows", y, row.len()).into_bytes()];
        }
        let rb = unsafe { std::slice::from_raw_parts(row.as_ptr() as *const u8, w * psize) };
        if rb != &bytes[y * w * psize..(y + 1) * w * psize] {
            return vec![format!("row {} does not hold the buffer's bytes", y).into_bytes()];
        }
    }
    if w > 0 && n != h {
        return vec![format!("{} rows instead of {}", n, h).into_bytes()];
    }
    vec![]
}

fn dyn_rows<P: Px, I: IntoImageView>(img: &I, bytes: &[u8]) -> Vec<Vec<u8>> {
    match img.image_view::<P>() {
        Some(v) => typed_rows(&v, bytes),
        None => vec![b"image_view returned None".to_vec()],
    }
}
