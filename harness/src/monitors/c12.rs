//! C12: resizing to the same size is an exact copy; a matching dimension is not resampled.
use firv::content::*;
use firv::exec::*;
use firv::gen::*;
use firv::px::*;
use firv::refmodel::*;
use firv::rng::Rng;
use firv::run::*;
use firv::serde_json::json;
use firv::spec::*;
use firv::with_px;

pub struct SCase {
    c: RCase,
    /// 0 same size; 1 rows match (no vertical resampling); 2 columns match; 3 SuperSampling with intermediate == destination
    mode: u8,
}

pub fn run(ctx: &mut Ctx) {
    let mut o = GenOpts::conv_all(&ALL_PT);
    o.alpha_mode = 2;
    o.nearest = true;
    o.max_side = 48;
    o.strip_max = 0;
    o.crops = false;
    let total = ctx.n;
    let seed = ctx.seed;
    ctx.drive(
        total,
        |_, idx| {
            let mut rng = Rng::for_case(seed, "C12", idx);
            let mut c = random_case(&mut rng, &o);
            c.pt = ALL_PT[(idx % 13) as usize];
            c.content = gen_content(&mut rng, pt_kind(c.pt));
            c.alpha = if pt_has_alpha(c.pt) { Some(gen_alpha_pat(&mut rng)) } else { None };
            let mode = ((idx / 13) % 4) as u8;
            // integer crop box
            let l = rng.below(c.sw as u64) as u32;
            let t = rng.below(c.sh as u64) as u32;
            let cw = 1 + rng.below((c.sw - l) as u64) as u32;
            let ch = 1 + rng.below((c.sh - t) as u64) as u32;
            let whole = rng.chance(1, 4);
            let (l, t, cw, ch) = if whole { (0, 0, c.sw, c.sh) } else { (l, t, cw, ch) };
            match mode {
                0 => {
                    c.dw = cw;
                    c.dh = ch;
                    c.crop = if whole {
                        // the whole source: no crop option, or fit_into_destination with a destination of the source's size
                        // (the fitted box of equal sizes is the whole source for every centering)
                        if rng.chance(1, 3) { Crop::Fit(*rng.pick(&[0.5, 0.0, 1.0, 0.3]), *rng.pick(&[0.5, 0.0, 1.0, 0.8])) } else { Crop::None }
                    } else {
                        Crop::Box([l as f64, t as f64, cw as f64, ch as f64])
                    };
                }
                1 => {
                    // rows match: dh == ch, integer top; x arbitrary (maybe fractional)
                    c.dh = ch;
                    let (fl, fw) = if rng.chance(1, 2) { (l as f64, cw as f64) } else {
                        let fl = l as f64 + rng.unit() * 0.9;
                        (fl, ((c.sw as f64 - fl) * (0.2 + 0.8 * rng.unit())).max(0.01))
                    };
                    c.crop = Crop::Box([fl, t as f64, fw, ch as f64]);
                    if rng.chance(1, 5) && c.sw.min(c.sh) >= 3 {
                        // everything square (source, box, destination), only the origin differs between the axes: a pure sub-pixel
                        // shift along x, nothing to do along y
                        let side = c.sw.min(c.sh);
                        c.sw = side;
                        c.sh = side;
                        let q = rng.range(1, (side - 1) as u64) as u32;
                        let tt = rng.below((side - q) as u64 + 1) as u32;
                        let fl = (rng.below((side - q) as u64) as f64 + *rng.pick(&[0.5, 0.25, 0.125, 0.7])).min((side - q) as f64);
                        c.crop = Crop::Box([fl, tt as f64, q as f64, q as f64]);
                        c.dw = q;
                        c.dh = q;
                    } else if c.dw as f64 == fw && fl == fl.round() {
                        c.dw += 1;
                    }
                    if c.alg == Alg::Nearest {
                        c.alg = Alg::Conv(Filt::Mitchell);
                    }
                }
                2 => {
                    c.dw = cw;
                    let (ft, fh) = if rng.chance(1, 2) { (t as f64, ch as f64) } else {
                        let ft = t as f64 + rng.unit() * 0.9;
                        (ft, ((c.sh as f64 - ft) * (0.2 + 0.8 * rng.unit())).max(0.01))
                    };
                    c.crop = Crop::Box([l as f64, ft, cw as f64, fh]);
                    if rng.chance(1, 5) && c.sw.min(c.sh) >= 3 {
                        let side = c.sw.min(c.sh);
                        c.sw = side;
                        c.sh = side;
                        let q = rng.range(1, (side - 1) as u64) as u32;
                        let ll = rng.below((side - q) as u64 + 1) as u32;
                        let ft = (rng.below((side - q) as u64) as f64 + *rng.pick(&[0.5, 0.25, 0.125, 0.7])).min((side - q) as f64);
                        c.crop = Crop::Box([ll as f64, ft, q as f64, q as f64]);
                        c.dw = q;
                        c.dh = q;
                    } else if c.dh as f64 == fh && ft == ft.round() {
                        c.dh += 1;
                    }
                    if c.alg == Alg::Nearest {
                        c.alg = Alg::Conv(Filt::Gaussian);
                    }
                }
                _ => {
                    // SuperSampling(_, m) with an uniform odd scale k*m: the intermediate image has the destination size
                    let m = *rng.pick(&[1u8, 1, 1, 3]);
                    let k = *rng.pick(&[3u32, 5, 7]);
                    c.dw = rng.range(1, 12) as u32;
                    c.dh = rng.range(1, 12) as u32;
                    if m == 1 {
                        c.sw = c.dw * k;
                        c.sh = c.dh * k;
                    } else {
                        // factor = k*3/3: intermediate = 3x destination, a real convolution follows (not judged here)
                        c.sw = c.dw * k;
                        c.sh = c.dh * k;
                    }
                    let f = c.alg.filt().unwrap_or(Filt::Bilinear);
                    c.alg = Alg::Super(f, 1);
                    c.crop = Crop::None;
                }
            }
            Some(SCase { c, mode })
        },
        |s| {
            let mut v = s.c.to_json();
            v["mode"] = json!(["same_size", "rows_match", "columns_match", "supersampling_identity"][s.mode as usize]);
            v
        },
        |s, stats, viols| with_px!(s.c.pt, P => exec::<P>(s, stats, viols)),
    );
}

fn float_close<P: Px>(a: P::C, b: P::C, mag: f64) -> bool {
    a.bits() == b.bits() || (P::kind() == CompKind::F32 && ((a.to_f64() - b.to_f64()).abs() <= 2.0 * ulp32_up(mag) + 6.0 * 2f64.powi(-149) || a.to_f64() == b.to_f64()))
}

fn exec<P: Px>(s: &SCase, stats: &mut Stats, viols: &mut Vec<Viol>) {
    let c = &s.c;
    let src = make_pixels::<P>(c.sw, c.sh, &c.content, c.alpha.as_ref());
    let opts = c.options();
    let [l, t, cw, ch] = c.crop_box();
    let (sw, sh, dw, dh) = (c.sw as usize, c.sh as usize, c.dw as usize, c.dh as usize);
    let nc = P::NC;
    stats.count(["same_size", "rows_match", "columns_match", "supersampling_identity"][s.mode as usize], 1);
    stats.seen("algorithms", c.alg.short());
    stats.nontrivial(&json!([c.to_json(), s.mode]));
    let sig = |ext: Ext| json!({"pt": P::NAME, "ext": ext.name(), "mode": s.mode, "alg": c.alg.short()});
    // float colours of an alpha-aware resize are quotients N/A whose rounding depends on how the 1-row and
    // 4-row kernels associate their sums (C02's allowance); only the alpha channel is judged for them
    let float_alpha = P::kind() == CompKind::F32 && c.use_alpha && P::HAS_ALPHA;
    for ext in ALL_EXT {
        let out = match resize_vec::<P>(&src, c.sw, c.sh, c.dw, c.dh, &opts, ext) {
            Ok(o) => o,
            Err(e) => {
                viols.push(Viol::new("unexpected_error", format!("{:?}", e)));
                continue;
            }
        };
        if s.mode == 0 && P::kind() == CompKind::F32 && ext == Ext::None {
            // the copy must be exact in the bit patterns too: zeros of both signs in the source, and a destination that already
            // holds the region with the opposite signs (a previous frame) - equal under ==, different in bits
            let mut src2 = src.clone();
            {
                let comps = P::components_mut(&mut src2);
                let mut rng = Rng::for_case(c.content.seed, "C12z", 0);
                for y in 0..sh {
                    let zero_row = rng.chance(1, 2);
                    for i in y * sw * nc..(y + 1) * sw * nc {
                        if zero_row || rng.chance(1, 5) {
                            comps[i] = P::C::from_bits(if rng.chance(1, 2) { 0x8000_0000 } else { 0 });
                        }
                    }
                }
            }
            let (l0, t0) = (l as usize, t as usize);
            let mut dst: Vec<P> = (0..dw * dh).map(|i| src2[(i / dw + t0) * sw + i % dw + l0]).collect();
            let want_bits = P::bits_of(&dst);
            for cmp in P::components_mut(&mut dst).iter_mut() {
                if cmp.to_f64() == 0.0 {
                    *cmp = P::C::from_bits(cmp.bits() ^ 0x8000_0000);
                }
            }
            let mut r = resizer(ext);
            let res = {
                let simg = firv::fr::images::TypedImageRef::<P>::new(c.sw, c.sh, &src2).unwrap();
                let mut dimg = firv::fr::images::TypedImage::<P>::from_pixels_slice(c.dw, c.dh, &mut dst).unwrap();
                r.resize_typed(&simg, &mut dimg, &opts)
            };
            stats.count("copies_over_an_equal_but_not_identical_destination", 1);
            if res.is_err() || P::bits_of(&dst) != want_bits {
                viols.push(Viol::new("same_size_not_a_copy", format!("{}: {:?}; the destination held the region with the signs of its zeros flipped and is not bit-identical to the source region afterwards", ext.name(), res)).sig(sig(ext)));
            }
        }
        match s.mode {
            0 => {
                let (l, t) = (l as usize, t as usize);
                'a: for y in 0..dh {
                    for x in 0..dw {
                        let want = src[(y + t) * sw + x + l];
                        if P::bits_of(&[out[y * dw + x]]) != P::bits_of(&[want]) {
                            viols.push(Viol::new("same_size_not_a_copy", format!("{}: dst ({},{}) = {:?}, source = {:?}", ext.name(), x, y, out[y * dw + x], want)).sig(sig(ext)));
                            break 'a;
                        }
                    }
                }
            }
            3 => {
                // every destination pixel is the source pixel under its centre (odd scale: no ambiguity)
                'b: for y in 0..dh {
                    let (sy, ay) = nearest_index(t, ch, y, dh, sh);
                    for x in 0..dw {
                        let (sx, ax) = nearest_index(l, cw, x, dw, sw);
                        if ax || ay {
                            continue;
                        }
                        let want = src[sy * sw + sx];
                        let (gb, wb) = (P::bits_of(&[out[y * dw + x]]), P::bits_of(&[want]));
                        // with alpha handling on, colours go through multiply/divide (C06, C07): only alpha is a copy
                        let same = if c.use_alpha && P::HAS_ALPHA { gb[nc - 1] == wb[nc - 1] } else { gb == wb };
                        if !same {
                            viols.push(Viol::new("supersampling_identity_not_a_copy", format!("{}: dst ({},{}) = {:?}, intermediate pixel = {:?}", ext.name(), x, y, out[y * dw + x], want)).sig(sig(ext)));
                            break 'b;
                        }
                    }
                }
            }
            1 => {
                // no resampling along y: row r equals the resize of the 1-row image made of source row t+r
                let t = t as usize;
                let mut c1 = c.clone();
                c1.crop = Crop::Box([l, 0.0, cw, 1.0]);
                let o1 = c1.options();
                'c: for r in 0..dh {
                    let row: Vec<P> = src[(t + r) * sw..(t + r + 1) * sw].to_vec();
                    let Ok(one) = resize_vec::<P>(&row, c.sw, 1, c.dw, 1, &o1, ext) else { continue };
                    let mag: f64 = P::components(&row).iter().map(|v| v.to_f64().abs()).fold(0.0, f64::max) * 4.0;
                    let (a, b) = (P::components(&out[r * dw..(r + 1) * dw]), P::components(&one));
                    for i in 0..dw * nc {
                        if float_alpha && i % nc != nc - 1 {
                            continue;
                        }
                        if !float_close::<P>(a[i], b[i], mag) {
                            viols.push(Viol::new("resampled_along_matching_axis", format!("{}: row {} comp {}: in image {:?}, alone {:?}", ext.name(), r, i, a[i], b[i])).sig(sig(ext)));
                            break 'c;
                        }
                    }
                }
            }
            _ => {
                let l = l as usize;
                let mut c1 = c.clone();
                c1.crop = Crop::Box([0.0, t, 1.0, ch]);
                let o1 = c1.options();
                'd: for col in 0..dw {
                    let column: Vec<P> = (0..sh).map(|y| src[y * sw + l + col]).collect();
                    let Ok(one) = resize_vec::<P>(&column, 1, c.sh, 1, c.dh, &o1, ext) else { continue };
                    let mag: f64 = P::components(&column).iter().map(|v| v.to_f64().abs()).fold(0.0, f64::max) * 4.0;
                    for y in 0..dh {
                        let (a, b) = (P::comps_of(&out[y * dw + col]), P::comps_of(&one[y]));
                        for i in 0..nc {
                            if float_alpha && i != nc - 1 {
                                continue;
                            }
                            if !float_close::<P>(a[i], b[i], mag) {
                                viols.push(Viol::new("resampled_along_matching_axis", format!("{}: column {} row {} comp {}: in image {:?}, alone {:?}", ext.name(), col, y, i, a[i], b[i])).sig(sig(ext)));
                                break 'd;
                            }
                        }
                    }
                }
            }
        }
    }
}
