//! C15: fit-into-destination crop is in bounds, keeps the aspect ratio, honours centering.
use firv::exec::*;
use firv::fr;
use firv::px::*;
use firv::rng::Rng;
use firv::run::*;
use firv::serde_json::json;
use firv::spec::*;
use fr::pixels::U8;
use fr::{CropBox, ResizeOptions};

#[derive(Debug, Clone, Copy)]
pub struct F {
    sw: u32,
    sh: u32,
    dw: u32,
    dh: u32,
    cx: f64,
    cy: f64,
}

fn judge(f: &F, stats: &mut Stats) -> Option<(String, &'static str)> {
    let b = CropBox::fit_src_into_dst_size(f.sw, f.sh, f.dw, f.dh, Some((f.cx, f.cy)));
    let (w, h) = (f.sw as f64, f.sh as f64);
    stats.count("function_calls", 1);
    if !(b.left.is_finite() && b.top.is_finite() && b.width.is_finite() && b.height.is_finite()) {
        return Some((format!("non-finite box {:?}", b), "in_bounds"));
    }
    // inside the source as the validator will judge it
    if !(b.left >= 0.0 && b.top >= 0.0 && b.width > 0.0 && b.height > 0.0 && b.left + b.width <= w && b.top + b.height <= h) {
        return Some((format!("box {:?} is not inside the {}x{} source", b, f.sw, f.sh), "in_bounds"));
    }
    // aspect ratio of the destination: |w/h - dw/dh| <= 1e-12 * dw/dh, evaluated without division
    let lhs = b.width * f.dh as f64;
    let rhs = b.height * f.dw as f64;
    if (lhs - rhs).abs() > 1e-12 * lhs.abs().max(rhs.abs()) {
        return Some((format!("box {:?} has aspect {} but the destination {}x{} has {}", b, b.width / b.height, f.dw, f.dh, f.dw as f64 / f.dh as f64), "aspect"));
    }
    // full span in at least one dimension
    let full_w = b.width == w;
    let full_h = b.height == h;
    if !full_w && !full_h {
        // allow rounding: the spanned dimension within 1e-12 relative
        if (b.width - w).abs() > 1e-12 * w && (b.height - h).abs() > 1e-12 * h {
            return Some((format!("box {:?} spans neither dimension of the {}x{} source", b, f.sw, f.sh), "span"));
        }
    }
    // centering: left / (W - w) == clamp(cx)
    let cx = f.cx.clamp(0.0, 1.0);
    let cy = f.cy.clamp(0.0, 1.0);
    let mx = w - b.width;
    let my = h - b.height;
    if mx > 1e-9 * w && (b.left - mx * cx).abs() > 1e-9 * mx.max(1.0) {
        return Some((format!("left {} is not {} of the margin {}", b.left, cx, mx), "centering"));
    }
    if my > 1e-9 * h && (b.top - my * cy).abs() > 1e-9 * my.max(1.0) {
        return Some((format!("top {} is not {} of the margin {}", b.top, cy, my), "centering"));
    }
    if mx > 0.0 || my > 0.0 {
        stats.count("boxes_that_crop", 1);
    }
    None
}

fn centering(rng: &mut Rng) -> f64 {
    *rng.pick(&[0.0, 0.5, 1.0, -3.0, 7.0, 0.25, 1.0 - f64::EPSILON, f64::MIN_POSITIVE, f64::INFINITY, f64::NEG_INFINITY, 0.999_999_999])
        + if rng.chance(1, 4) { rng.unit() } else { 0.0 }
}

pub fn run(ctx: &mut Ctx) {
    match ctx.sub.as_str() {
        "exhaustive" => {
            // all size quadruples <= 24: one case per (sw, sh)
            let n = 24u64;
            ctx.stats.notes.push("exhaustive: all (sw, sh, dw, dh) in 1..=24, 4 centerings".into());
            ctx.drive(
                n * n,
                |_, idx| Some(((idx % n) as u32 + 1, (idx / n) as u32 + 1)),
                |c| json!({"src": [c.0, c.1], "dst": "all of 1..=24 x 1..=24", "centering": "(0.5,0.5), (0,1), (-3,7), (0.3,0.9)"}),
                |&(sw, sh), stats, viols| {
                    stats.nontrivial(&json!([sw, sh]));
                    for dw in 1..=24 {
                        for dh in 1..=24 {
                            for (cx, cy) in [(0.5, 0.5), (0.0, 1.0), (-3.0, 7.0), (0.3, 0.9)] {
                                let f = F { sw, sh, dw, dh, cx, cy };
                                if let Some((m, k)) = judge(&f, stats) {
                                    if viols.len() < 3 {
                                        viols.push(Viol::new("fit_crop_box", format!("{:?}: {}", f, m)).sig(json!({ "clause": k })));
                                    }
                                }
                            }
                        }
                    }
                },
            );
        }
        "random" => {
            // blocks of 10 000 random quadruples biased to near-equal ratios
            let blocks = ctx.n / 10_000;
            let seed = ctx.seed;
            ctx.drive(
                blocks.max(1),
                |_, idx| Some(idx),
                |c| json!({"block_of_10000_random_quadruples": c}),
                |&blk, stats, viols| {
                    stats.nontrivial(&json!(blk));
                    let mut rng = Rng::for_case(seed, "C15", blk);
                    for _ in 0..10_000 {
                        let big = |rng: &mut Rng| -> u32 {
                            match rng.below(5) {
                                0 => rng.range(1, 64) as u32,
                                1 => *rng.pick(&[65_535u32, 65_534, 32_768, 4096, 1]),
                                _ => rng.range(1, 65_535) as u32,
                            }
                        };
                        let (sw, sh) = (big(&mut rng), big(&mut rng));
                        let (dw, dh) = match rng.below(4) {
                            0 => (big(&mut rng), big(&mut rng)),
                            1 => {
                                // dst = k * src +- 1: nearly the same ratio
                                let k = rng.range(1, 6) as u32;
                                let d = |rng: &mut Rng, v: u32| ((v as u64 * k as u64) as i64 + rng.range(0, 2) as i64 - 1).clamp(1, 65_535) as u32;
                                (d(&mut rng, sw), d(&mut rng, sh))
                            }
                            2 => {
                                // src = k * dst +- 1
                                let k = rng.range(1, 6) as u32;
                                let d = |rng: &mut Rng, v: u32| ((v / k) as i64 + rng.range(0, 2) as i64 - 1).clamp(1, 65_535) as u32;
                                (d(&mut rng, sw), d(&mut rng, sh))
                            }
                            _ => (sw, sh.saturating_add(rng.range(0, 2) as u32).max(1)),
                        };
                        let f = F { sw, sh, dw, dh, cx: centering(&mut rng), cy: centering(&mut rng) };
                        if (sw as u64 * dh as u64) as i64 - (sh as u64 * dw as u64) as i64 != 0 && ((sw as f64 / sh as f64) - (dw as f64 / dh as f64)).abs() < 1e-6 {
                            stats.count("near_equal_ratio_quadruples", 1);
                        }
                        if let Some((m, k)) = judge(&f, stats) {
                            if viols.len() < 3 {
                                viols.push(Viol::new("fit_crop_box", format!("{:?}: {}", f, m)).sig(json!({ "clause": k })));
                            }
                        }
                    }
                },
            );
        }
        _ => {
            // through Resizer::resize on small images: must never return a cropping error
            let total = ctx.n;
            let seed = ctx.seed;
            ctx.drive(
                total,
                |_, idx| {
                    let mut rng = Rng::for_case(seed, "C15r", idx);
                    let s = |rng: &mut Rng| if rng.chance(1, 6) { rng.range(100, 700) as u32 } else { rng.range(1, 40) as u32 };
                    if idx < 10_000 {
                        // every size quadruple in 1..=10 first (transposed aspects, equal aspects, one-pixel sides all occur)
                        let d = |k: u64| ((idx / 10u64.pow(k as u32)) % 10) as u32 + 1;
                        return Some(F { sw: d(0), sh: d(1), dw: d(2), dh: d(3), cx: centering(&mut rng), cy: centering(&mut rng) });
                    }
                    let mut f = F { sw: s(&mut rng), sh: s(&mut rng), dw: s(&mut rng), dh: s(&mut rng), cx: centering(&mut rng), cy: centering(&mut rng) };
                    if idx % 3 == 0 {
                        // pure crops: the destination shares one side with the source and is smaller on the other; centerings k/100
                        // (margin x centering lands a hair below or on whole numbers)
                        f.sw = rng.range(2, 160) as u32;
                        f.sh = rng.range(2, 160) as u32;
                        if rng.chance(1, 2) {
                            f.dh = f.sh;
                            f.dw = rng.range(1, f.sw as u64) as u32;
                        } else {
                            f.dw = f.sw;
                            f.dh = rng.range(1, f.sh as u64) as u32;
                        }
                        f.cx = rng.below(101) as f64 / 100.0;
                        f.cy = rng.below(101) as f64 / 100.0;
                    }
                    Some(f)
                },
                |f| json!({"src": [f.sw, f.sh], "dst": [f.dw, f.dh], "centering": [f64_show(f.cx), f64_show(f.cy)]}),
                |f, stats, viols| {
                    stats.nontrivial(&json!([f.sw, f.sh, f.dw, f.dh, f64_to_json(f.cx), f64_to_json(f.cy)]));
                    // thin the big ones
                    let (sw, sh, dw, dh) = (f.sw, f.sh.min(if f.sw > 100 { 8 } else { 700 }), f.dw, f.dh.min(if f.dw > 100 { 8 } else { 700 }));
                    // identity-tagged source: the position of the crop box is visible in the result
                    let src: Vec<U8> = (0..sw * sh).map(|i| U8::new(((i % sw) * 7 + (i / sw) * 13 + 1) as u8)).collect();
                    // the box the (separately judged) free function returns for these arguments
                    let b = CropBox::fit_src_into_dst_size(sw, sh, dw, dh, Some((f.cx, f.cy)));
                    for alg in [Alg::Nearest, Alg::Conv(Filt::Bilinear), Alg::Super(Filt::Box, 2)] {
                        let opts: ResizeOptions = ResizeOptions::new().resize_alg(alg.to_fr()).fit_into_destination(Some((f.cx, f.cy)));
                        let explicit: ResizeOptions = ResizeOptions::new().resize_alg(alg.to_fr()).crop(b.left, b.top, b.width, b.height);
                        stats.count("resize_calls", 1);
                        let want = resize_vec::<U8>(&src, sw, sh, dw, dh, &explicit, Ext::Avx2);
                        match resize_vec::<U8>(&src, sw, sh, dw, dh, &opts, Ext::Avx2) {
                            Ok(out) => {
                                // the option must place the box exactly where the function says (centering clamped, not replaced)
                                if want.as_ref().map_or(true, |w| w.iter().map(|p| p.0).ne(out.iter().map(|p| p.0))) {
                                    viols.push(
                                        Viol::new("fit_option_uses_another_box", format!("{}x{} -> {}x{} centering ({}, {}) {}: the result differs from a resize with the crop box {:?} that fit_src_into_dst_size returns", sw, sh, dw, dh, f.cx, f.cy, alg.short(), b))
                                            .sig(json!({"clause": "centering"})),
                                    );
                                }
                            }
                            Err(e) => viols.push(Viol::new("fit_resize_error", format!("{}x{} -> {}x{} centering ({}, {}): {:?}", sw, sh, dw, dh, f.cx, f.cy, e)).sig(json!({"clause": "in_bounds"}))),
                        }
                        // the same through the dynamic entry point (Resizer::resize on ImageRef / Image): its option plumbing is separate
                        {
                            let bytes: Vec<u8> = src.iter().map(|p| p.0).collect();
                            let simg = fr::images::ImageRef::new(sw, sh, &bytes, fr::PixelType::U8).unwrap();
                            let mut dimg = fr::images::Image::new(dw, dh, fr::PixelType::U8);
                            let mut r = resizer(Ext::Avx2);
                            stats.count("resize_calls_dynamic", 1);
                            match r.resize(&simg, &mut dimg, &opts) {
                                Ok(()) => {
                                    if want.as_ref().map_or(true, |w| w.iter().map(|p| p.0).ne(dimg.buffer().iter().copied())) {
                                        viols.push(
                                            Viol::new("fit_option_uses_another_box", format!("dynamic entry point, {}x{} -> {}x{} centering ({}, {}) {}: the result differs from a resize with the crop box {:?} that fit_src_into_dst_size returns", sw, sh, dw, dh, f.cx, f.cy, alg.short(), b))
                                                .sig(json!({"clause": "centering"})),
                                        );
                                    }
                                }
                                Err(e) => viols.push(Viol::new("fit_resize_error", format!("dynamic entry point, {}x{} -> {}x{} centering ({}, {}): {:?}", sw, sh, dw, dh, f.cx, f.cy, e)).sig(json!({"clause": "in_bounds"}))),
                            }
                        }
                    }
                    // where the fitted box really is, read off a Nearest resize of coordinate-tagged I32 pixels (independent of how
                    // the library treats an explicit crop() of the same box): dst (x, y) must show the source pixel under its centre
                    {
                        use fr::pixels::I32;
                        let tagged: Vec<I32> = (0..sw * sh).map(|i| I32::new(((i % sw) + (i / sw) * 65_536) as i32)).collect();
                        let opts: ResizeOptions = ResizeOptions::new().resize_alg(Alg::Nearest.to_fr()).fit_into_destination(Some((f.cx, f.cy)));
                        stats.count("fit_box_read_off_nearest", 1);
                        if let Ok(out) = resize_vec::<I32>(&tagged, sw, sh, dw, dh, &opts, Ext::None) {
                            'scan: for y in 0..dh {
                                let fy = b.top + (y as f64 + 0.5) * b.height / dh as f64;
                                for x in 0..dw {
                                    let fx = b.left + (x as f64 + 0.5) * b.width / dw as f64;
                                    let v = out[(y * dw + x) as usize].0;
                                    let (gx, gy) = ((v & 0xffff) as f64, (v >> 16) as f64);
                                    // either neighbour when the centre is within 1e-9 of a pixel boundary
                                    let okx = (fx - 1e-9).floor().min(sw as f64 - 1.0) <= gx && gx <= (fx + 1e-9).floor().min(sw as f64 - 1.0);
                                    let oky = (fy - 1e-9).floor().min(sh as f64 - 1.0) <= gy && gy <= (fy + 1e-9).floor().min(sh as f64 - 1.0);
                                    if !okx || !oky {
                                        viols.push(
                                            Viol::new("fit_option_uses_another_box", format!("{}x{} -> {}x{} centering ({}, {}) Nearest: dst ({},{}) shows source pixel ({},{}), the centre of the fitted box {:?} lies at ({}, {})", sw, sh, dw, dh, f.cx, f.cy, x, y, gx, gy, b, fx, fy))
                                                .sig(json!({"clause": "centering"})),
                                        );
                                        break 'scan;
                                    }
                                }
                            }
                        }
                    }
                    // default centering
                    {
                        let d = CropBox::fit_src_into_dst_size(sw, sh, dw, dh, None);
                        let a = resize_vec::<U8>(&src, sw, sh, dw, dh, &ResizeOptions::new().resize_alg(Alg::Nearest.to_fr()).fit_into_destination(None), Ext::None);
                        let w = resize_vec::<U8>(&src, sw, sh, dw, dh, &ResizeOptions::new().resize_alg(Alg::Nearest.to_fr()).crop(d.left, d.top, d.width, d.height), Ext::None);
                        match (a, w) {
                            (Ok(a), Ok(w)) if a.iter().map(|p| p.0).eq(w.iter().map(|p| p.0)) => {}
                            (a, _) => viols.push(Viol::new("fit_option_uses_another_box", format!("{}x{} -> {}x{} default centering: {:?}", sw, sh, dw, dh, a.map(|_| ()))).sig(json!({"clause": "centering"}))),
                        }
                    }
                },
            );
        }
    }
    let _ = pt_name(fr::PixelType::U8);
}
