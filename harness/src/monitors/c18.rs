//! C18: non-negative filters never overshoot and preserve the order of inputs.
use firv::content::*;
use firv::exec::*;
use firv::gen::*;
use firv::px::*;
use firv::refmodel::geometry_class;
use firv::rng::Rng;
use firv::run::*;
use firv::serde_json::json;
use firv::spec::*;
use firv::with_px;

const VERDICT_TAPS: usize = 8192;

pub fn run(ctx: &mut Ctx) {
    let mut o = GenOpts::conv_all(&ALL_PT);
    o.filters = &NONNEG;
    o.alpha_mode = 0;
    o.max_side = 56;
    o.strip_max = if ctx.quick() { 9000 } else { 40_000 };
    let total = ctx.n;
    let seed = ctx.seed;
    ctx.drive(
        total,
        |_, idx| {
            let mut rng = Rng::for_case(seed, "C18", idx);
            let mut c = random_case(&mut rng, &o);
            c.pt = ALL_PT[(idx % 13) as usize];
            c.content = gen_content(&mut rng, pt_kind(c.pt));
            c.alpha = None;
            Some(c)
        },
        |c| c.to_json(),
        |c, stats, viols| with_px!(c.pt, P => exec::<P>(c, stats, viols)),
    );
}

fn exec<P: Px>(c: &RCase, stats: &mut Stats, viols: &mut Vec<Viol>) {
    let nc = P::NC;
    let a = make_pixels::<P>(c.sw, c.sh, &c.content, None);
    let (klen, _) = geometry_class(c.sw as usize, c.sh as usize, c.crop_box(), c.dw as usize, c.dh as usize, c.alg);
    if klen > VERDICT_TAPS {
        stats.count("cases_beyond_verdict_domain", 1);
        return;
    }
    if klen >= 2 {
        stats.nontrivial(&c.to_json());
    }
    stats.max("kernel_len_max", klen as f64);
    // B >= A componentwise: add non-negative increments (saturating at the top of the range)
    let mut rng = Rng::for_case(c.content.seed, "C18b", 1);
    let mut b = a.clone();
    let (lo, hi) = P::kind().range();
    let mode = rng.below(4);
    {
        let bc = P::components_mut(&mut b);
        for v in bc.iter_mut() {
            let x = v.to_f64();
            let inc = match (P::kind(), mode) {
                (CompKind::F32, 0) => rng.unit(),
                (CompKind::F32, 1) => if rng.chance(1, 10) { 1000.0 * rng.unit() } else { 0.0 },
                (CompKind::F32, _) => x.abs() * 1e-6 * rng.unit(),
                (_, 0) => (hi - lo) * rng.unit() * rng.unit(),
                (_, 1) => if rng.chance(1, 10) { hi - lo } else { 0.0 },
                (_, 2) => rng.below(3) as f64,
                _ => if rng.chance(1, 2) { 1.0 } else { 0.0 },
            };
            let y = P::C::from_f64((x + inc).min(hi));
            // conversions round: keep the order exact
            *v = if y.to_f64() >= x { y } else { *v };
        }
    }
    // range of the source per channel
    let ac = P::components(&a);
    let mut mn = vec![f64::INFINITY; nc];
    let mut mx = vec![f64::NEG_INFINITY; nc];
    for (i, v) in ac.iter().enumerate() {
        let x = v.to_f64();
        mn[i % nc] = mn[i % nc].min(x);
        mx[i % nc] = mx[i % nc].max(x);
    }
    let opts = c.options();
    let is_f = P::kind() == CompKind::F32;
    for ext in ALL_EXT {
        let (ra, rb) = (resize_vec::<P>(&a, c.sw, c.sh, c.dw, c.dh, &opts, ext), resize_vec::<P>(&b, c.sw, c.sh, c.dw, c.dh, &opts, ext));
        let (ra, rb) = match (ra, rb) {
            (Ok(x), Ok(y)) => (x, y),
            (x, y) => {
                viols.push(Viol::new("unexpected_error", format!("{:?} {:?}", x.err(), y.err())));
                continue;
            }
        };
        let (oa, ob) = (P::components(&ra), P::components(&rb));
        let mut range_bad = None;
        let mut order_bad = None;
        for i in 0..oa.len() {
            let (x, y) = (oa[i].to_f64(), ob[i].to_f64());
            let ch = i % nc;
            stats.count("components_checked", 1);
            let tol = if is_f { ulp32_up(mn[ch].abs().max(mx[ch].abs())) } else { 0.0 };
            if !(x >= mn[ch] - tol && x <= mx[ch] + tol) && range_bad.is_none() {
                range_bad = Some(format!("{}: pixel {} comp {} = {:?} outside source range [{}, {}]", ext.name(), i / nc, ch, oa[i], mn[ch], mx[ch]));
            }
            let tol2 = if is_f { ulp32_up(x.abs().max(y.abs())) } else { 0.0 };
            if !(y >= x - tol2) && order_bad.is_none() {
                order_bad = Some(format!("{}: pixel {} comp {}: resize(A) = {:?} > resize(B) = {:?} although A <= B", ext.name(), i / nc, ch, oa[i], ob[i]));
            }
        }
        if let Some(m) = range_bad {
            viols.push(Viol::new("overshoot", m).sig(json!({"pt": P::NAME, "ext": ext.name(), "alg": c.alg.short()})));
        }
        if let Some(m) = order_bad {
            viols.push(Viol::new("order_not_preserved", m).sig(json!({"pt": P::NAME, "ext": ext.name(), "alg": c.alg.short()})));
        }
    }
}
