//! C02: SIMD back-ends compute the same image as the portable back-end.
use firv::content::*;
use firv::exec::*;
use firv::fr;
use firv::gen::*;
use firv::px::*;
use firv::refmodel::*;
use firv::rng::Rng;
use firv::run::*;
use firv::serde_json::json;
use firv::spec::*;
use firv::{with_alpha_px, with_px};
use fr::images::{TypedImage, TypedImageRef};
use fr::MulDiv;

/// custom filters designed to stay (mostly) inside the sum|w| < 4 envelope; the envelope is
/// checked per case from the H1 events
const C02_FILTERS: [Filt; 14] = [
    Filt::Box,
    Filt::Bilinear,
    Filt::Hamming,
    Filt::CatmullRom,
    Filt::Mitchell,
    Filt::Gaussian,
    Filt::Lanczos3,
    Filt::Custom(0),
    Filt::Custom(1),
    Filt::Custom(2),
    Filt::Custom(6),
    Filt::Custom(7),
    Filt::Custom(8),
    Filt::Custom(13),
];

pub fn run(ctx: &mut Ctx) {
    if ctx.sub == "muldiv" {
        return run_muldiv(ctx);
    }
    let mut o = GenOpts::conv_all(&ALL_PT);
    o.filters = &C02_FILTERS;
    o.alpha_mode = 2;
    if !ctx.quick() {
        o.strip_max = 20_000;
        o.max_side = 96;
    }
    let total = ctx.n;
    let strat = (total / 2).min(STRAT_CYCLE);
    let seed = ctx.seed;
    ctx.drive(
        total,
        |_, idx| Some(resize_case(seed, "C02", idx, strat, &o)),
        |c| c.to_json(),
        |c, stats, viols| with_px!(c.pt, P => exec::<P>(c, stats, viols)),
    );
}

fn premultiplied_planes<P: Px>(src: &[P]) -> Vec<Vec<f64>> {
    let nc = P::NC;
    let comps = P::components(src);
    let n = src.len();
    (0..nc)
        .map(|c| {
            (0..n)
                .map(|i| {
                    let a = comps[i * nc + nc - 1].to_f64();
                    let v = comps[i * nc + c].to_f64();
                    if c == nc - 1 { a } else { ((v as f32) * (a as f32)) as f64 }
                })
                .collect()
        })
        .collect()
}

fn exec<P: Px>(c: &RCase, stats: &mut Stats, viols: &mut Vec<Viol>) {
    let src = make_pixels::<P>(c.sw, c.sh, &c.content, c.alpha.as_ref());
    let opts = c.options();
    let kind = P::kind();
    let nc = P::NC;
    let alpha_on = c.use_alpha && P::HAS_ALPHA;
    let (base, events) = record_catch(|| resize_vec::<P>(&src, c.sw, c.sh, c.dw, c.dh, &opts, Ext::None));
    if let Some(h) = hook_violation(&events) {
        viols.push(Viol::new("hook_violation", h));
    }
    let base = match base {
        Ok(b) => b,
        Err(msg) => {
            if max_abs_sum(&events).map_or(false, |m| !(m < 4.0)) {
                stats.count("outside_envelope_skipped", 1);
            } else {
                let loc = msg.rsplit(" @ ").next().unwrap_or("").to_string();
                viols.push(Viol::new("panic", msg).sig(json!({ "location": loc })));
            }
            return;
        }
    };
    let mut outside = false;
    let mut passes = 0;
    for e in &events {
        if let Event::Pass { horizontal, precision, max_len, max_abs_sum, dst_width, dst_height, .. } = e {
            passes += 1;
            if !(*max_abs_sum < 4.0) {
                outside = true;
            }
            let dir = if *horizontal { "h" } else { "v" };
            stats.seen(&format!("{}_{}_len_mod8", P::NAME, dir), max_len % 8);
            stats.seen(&format!("{}_{}_rowbytes_mod32", P::NAME, dir), (*dst_width as usize * std::mem::size_of::<P>()) % 32);
            stats.seen(&format!("{}_{}_rows_mod4", P::NAME, dir), dst_height % 4);
            stats.seen(&format!("precisions_{}", kind.name()), precision);
        }
    }
    if outside {
        stats.count("outside_envelope_skipped", 1);
        return;
    }
    if passes > 0 {
        stats.nontrivial(&c.to_json());
    }
    let base = match base {
        Ok(b) => b,
        Err(e) => {
            viols.push(Viol::new("unexpected_error", format!("{:?}", e)));
            return;
        }
    };
    // float tolerance: magnitude of what is summed, from the reference model
    let crop = c.crop_box();
    let (sw, sh, dw, dh) = (c.sw as usize, c.sh as usize, c.dw as usize, c.dh as usize);
    let mags: Option<Vec<Plane>> = if kind == CompKind::F32 && c.alg != Alg::Nearest {
        let pl = if alpha_on { premultiplied_planes::<P>(&src) } else { planes::<P>(&src) };
        Some(pl.iter().map(|p| reference(p, sw, sh, crop, dw, dh, c.alg, kind)).collect())
    } else {
        None
    };
    let bcomps = P::components(&base);
    for ext in [Ext::Sse4, Ext::Avx2] {
        let out = match resize_vec::<P>(&src, c.sw, c.sh, c.dw, c.dh, &opts, ext) {
            Ok(o) => o,
            Err(e) => {
                viols.push(Viol::new("unexpected_error", format!("{:?} with {}", e, ext.name())));
                continue;
            }
        };
        let ocomps = P::components(&out);
        let mut bad: Option<String> = None;
        let mut nbad = 0;
        for i in 0..dw * dh {
            for ch in 0..nc {
                let (a, b) = (bcomps[i * nc + ch], ocomps[i * nc + ch]);
                stats.count("components_compared", 1);
                if a.bits() == b.bits() {
                    continue;
                }
                let (fa, fb) = (a.to_f64(), b.to_f64());
                let ok = match kind {
                    CompKind::F32 => {
                        if fa == fb {
                            true // +0 / -0
                        } else if let Some(m) = &mags {
                            // In the denormal range the f32 spacing no longer shrinks with the value: an intermediate sample that the two
                            // back-ends round to neighbouring floats (their f64 sums straddle a rounding boundary) is off by a whole
                            // 2^-149, the second pass multiplies that by sum|w2| (< 4 inside the envelope) and rounds once more. For
                            // normal values this absolute term is far below the ulp-of-magnitude terms.
                            let dn0 = 6.0 * 2f64.powi(-149);
                            if alpha_on && ch != nc - 1 {
                                // r = N / A: both back-ends resolve A and N to 2 ulp of their summed magnitudes
                                let aa = bcomps[i * nc + nc - 1].to_f64().abs();
                                let da = 2.0 * ulp32_up(m[nc - 1].mag[i].max(aa)) + dn0;
                                if aa <= 4.0 * da {
                                    stats.count("float_alpha_unresolved", 1);
                                    true
                                } else {
                                    let dn = 2.0 * ulp32_up(m[ch].mag[i].max(fa.abs() * aa).max(fb.abs() * aa)) + dn0;
                                    let tol = (dn + fa.abs().max(fb.abs()) * da) / (aa - da) + 2.0 * ulp32_up(fa.abs().max(fb.abs()));
                                    (fa - fb).abs() <= tol
                                }
                            } else {
                                // the summed magnitude is never below the result itself (where the model's window is
                                // degenerate - a Box centre rounded onto the edge - its magnitude is 0)
                                (fa - fb).abs() <= 2.0 * ulp32_up(m[ch].mag[i].max(fa.abs()).max(fb.abs())) + dn0
                            }
                        } else {
                            false
                        }
                    }
                    CompKind::U16 if alpha_on && ch != nc - 1 => (fa - fb).abs() <= 1.0,
                    _ => false,
                };
                if ok {
                    stats.count("components_within_allowance", 1);
                } else {
                    nbad += 1;
                    if bad.is_none() {
                        bad = Some(format!("{} vs None: x={} y={} ch={} portable={:?} simd={:?}", ext.name(), i % dw, i / dw, ch, a, b));
                    }
                }
            }
        }
        if let Some(b) = bad {
            viols.push(
                Viol::new("backend_mismatch", format!("{} ({} of {} components differ beyond the allowance)", b, nbad, dw * dh * nc))
                    .sig(json!({"pt": P::NAME, "ext": ext.name(), "alpha": alpha_on})),
            );
        }
    }
}

// ---------------------------------------------------------------- alpha multiply / divide differential

#[derive(Debug)]
struct MdCase {
    pt: fr::PixelType,
    w: u32,
    h: u32,
    divide: bool,
    inplace: bool,
    content: Content,
    alpha: AlphaPat,
}

fn run_muldiv(ctx: &mut Ctx) {
    let total = ctx.n;
    let seed = ctx.seed;
    ctx.drive(
        total,
        |_, idx| {
            let mut rng = Rng::for_case(seed, "C02md", idx);
            let pt = ALPHA_PT[(idx % 6) as usize];
            // every row length 1..=70 in turn, then random
            let w = if idx / 6 < 70 * 4 { 1 + ((idx / 6) % 70) as u32 } else { rng.size(200) };
            Some(MdCase {
                pt,
                w,
                h: rng.range(1, 3) as u32,
                divide: (idx / 6 / 70) % 2 == 1 || rng.chance(1, 2),
                inplace: rng.chance(1, 2),
                content: gen_content(&mut rng, pt_kind(pt)),
                alpha: gen_alpha_pat(&mut rng),
            })
        },
        |c| json!({"pixel_type": pt_name(c.pt), "size": [c.w, c.h], "op": if c.divide {"divide"} else {"multiply"}, "inplace": c.inplace,
                    "content": c.content.to_json(), "alpha_pattern": c.alpha.to_json()}),
        |c, stats, viols| with_alpha_px!(c.pt, P => exec_md::<P>(c, stats, viols)),
    );
}

fn muldiv<P: Px>(src: &[P], w: u32, h: u32, divide: bool, inplace: bool, ext: Ext) -> Vec<P> {
    let mut md = MulDiv::new();
    unsafe { md.set_cpu_extensions(ext.to_fr()) };
    if inplace {
        let mut buf = src.to_vec();
        {
            let mut img = TypedImage::from_pixels_slice(w, h, &mut buf).unwrap();
            if divide { md.divide_alpha_inplace_typed(&mut img).unwrap() } else { md.multiply_alpha_inplace_typed(&mut img).unwrap() }
        }
        buf
    } else {
        let s = TypedImageRef::new(w, h, src).unwrap();
        let mut buf = sentinel::<P>(src.len());
        {
            let mut d = TypedImage::from_pixels_slice(w, h, &mut buf).unwrap();
            if divide { md.divide_alpha_typed(&s, &mut d).unwrap() } else { md.multiply_alpha_typed(&s, &mut d).unwrap() }
        }
        buf
    }
}

fn exec_md<P: Px>(c: &MdCase, stats: &mut Stats, viols: &mut Vec<Viol>) {
    let src = make_pixels::<P>(c.w, c.h, &c.content, Some(&c.alpha));
    let nc = P::NC;
    let base = muldiv::<P>(&src, c.w, c.h, c.divide, c.inplace, Ext::None);
    stats.nontrivial(&json!([pt_name(c.pt), c.w, c.h, c.divide, c.inplace, c.content.to_json(), c.alpha.to_json()]));
    stats.seen(&format!("{}_row_len_mod16", P::NAME), c.w % 16);
    let bc = P::components(&base);
    for ext in [Ext::Sse4, Ext::Avx2] {
        let out = muldiv::<P>(&src, c.w, c.h, c.divide, c.inplace, ext);
        let oc = P::components(&out);
        for i in 0..bc.len() {
            stats.count("components_compared", 1);
            if bc[i].bits() == oc[i].bits() {
                continue;
            }
            let is_alpha = i % nc == nc - 1;
            let (fa, fb) = (bc[i].to_f64(), oc[i].to_f64());
            let ok = match P::kind() {
                CompKind::U16 => c.divide && !is_alpha && (fa - fb).abs() <= 1.0,
                CompKind::F32 => fa == fb, // +0/-0 only: c*a and c/a are single IEEE operations
                _ => false,
            };
            if ok {
                stats.count("components_within_allowance", 1);
            } else {
                viols.push(
                    Viol::new("muldiv_backend_mismatch", format!("{} vs None at pixel {} comp {}: src={:?} portable={:?} simd={:?}", ext.name(), i / nc, i % nc, src[i / nc], bc[i], oc[i]))
                        .sig(json!({"pt": P::NAME, "ext": ext.name(), "divide": c.divide})),
                );
                return;
            }
        }
    }
}
