//! C09: a reused Resizer behaves exactly like a fresh one.
use firv::content::*;
use firv::exec::*;
use firv::fr;
use firv::gen::*;
use firv::px::*;
use firv::rng::Rng;
use firv::run::*;
use firv::serde_json::{json, Value};
use firv::spec::*;
use firv::with_px;
use fr::Resizer;

pub enum Op {
    Resize(RCase, Ext),
    /// a call that must fail (invalid crop box)
    Failing(RCase, Ext),
    Reset,
    /// clone: the clone replaces slot `1 - cur`, both copies continue
    Clone,
    /// switch to the other copy
    Switch,
}

fn describe(ops: &Vec<Op>) -> Value {
    json!({"history": ops.iter().map(|o| match o {
        Op::Resize(c, e) => json!({"resize": c.short(), "backend": e.name(), "content_kind": c.content.kind}),
        Op::Failing(c, e) => json!({"failing_resize": c.short(), "backend": e.name()}),
        Op::Reset => json!("reset_internal_buffers"),
        Op::Clone => json!("clone"),
        Op::Switch => json!("switch_to_other_copy"),
    }).collect::<Vec<_>>()})
}

/// Histories with big images: intermediate images of several MB and retained scratch buffers beyond 64 MB, so that anything
/// decided from the *size* of what a Resizer kept (reuse, pass order, a memory budget) shows against a fresh Resizer.
fn big_history(rng: &mut Rng, small: &GenOpts) -> Vec<Op> {
    let len = rng.range(7, 11) as usize;
    let mut ops = Vec::new();
    let mut ext = *rng.pick(&ALL_EXT);
    let u8s = [fr::PixelType::U8, fr::PixelType::U8x2, fr::PixelType::U8x3, fr::PixelType::U8x4];
    let mut huge_used = false;
    for k in 0..len {
        let mut c = random_case(rng, small);
        let kind = if k == 1 && !huge_used { 3 } else { rng.below(7) };
        match kind {
            1 => {
                // wide source, tall destination: the vertical-first intermediate is sw x dh
                c.pt = *rng.pick(&u8s);
                (c.sw, c.sh, c.dw, c.dh) = (rng.range(1500, 2600) as u32, rng.range(20, 60) as u32, rng.range(60, 140) as u32, rng.range(1500, 2600) as u32);
                c.alg = Alg::Conv(*rng.pick(&[Filt::Bilinear, Filt::Box, Filt::CatmullRom]));
                c.crop = Crop::None;
            }
            2 => {
                c.pt = *rng.pick(&[fr::PixelType::U8x4, fr::PixelType::U16x2, fr::PixelType::F32, fr::PixelType::U8]);
                (c.sw, c.sh, c.dw, c.dh) = (rng.range(20, 60) as u32, rng.range(1500, 2600) as u32, rng.range(1500, 2600) as u32, rng.range(60, 140) as u32);
                c.alg = Alg::Conv(*rng.pick(&[Filt::Bilinear, Filt::Hamming]));
                c.crop = Crop::None;
            }
            3 if !huge_used => {
                // an alpha-aware resize of a source of 66..72 MB (the whole source is premultiplied into the kept buffer, whatever the crop)
                huge_used = true;
                if rng.chance(1, 2) {
                    c.pt = fr::PixelType::U8x4;
                    (c.sw, c.sh) = (4200 + rng.below(64) as u32, 4000 + rng.below(200) as u32);
                } else {
                    c.pt = fr::PixelType::U16x4;
                    (c.sw, c.sh) = (3000 + rng.below(64) as u32, 2800 + rng.below(150) as u32);
                }
                c.crop = Crop::Box([rng.below(100) as f64, rng.below(100) as f64, 64.0 + rng.unit() * 30.0, 48.0 + rng.unit() * 30.0]);
                (c.dw, c.dh) = (rng.range(8, 24) as u32, rng.range(8, 24) as u32);
                c.alg = Alg::Conv(Filt::Bilinear);
                c.use_alpha = true;
                c.content = Content { kind: 4, seed: rng.next(), a: 0.0, b: 200.0 };
            }
            4 | 5 => {
                // SuperSampling of a few hundred pixels per side (two-step: nearest pre-shrink, then convolution)
                (c.sw, c.sh, c.dw, c.dh) = (rng.range(200, 500) as u32, rng.range(200, 500) as u32, rng.range(10, 60) as u32, rng.range(10, 60) as u32);
                c.alg = Alg::Super(*rng.pick(&[Filt::Box, Filt::Bilinear, Filt::Lanczos3]), rng.range(1, 3) as u8);
                c.crop = if rng.chance(1, 2) { Crop::None } else { Crop::Fit(0.5, 0.5) };
            }
            _ => {}
        }
        if kind != 3 {
            c.content = gen_content(rng, pt_kind(c.pt));
        }
        c.alpha = if pt_has_alpha(c.pt) { Some(gen_alpha_pat(rng)) } else { None };
        if rng.chance(1, 5) {
            ext = *rng.pick(&ALL_EXT);
        }
        ops.push(Op::Resize(c, ext));
        match rng.below(12) {
            0 => ops.push(Op::Reset),
            1 => ops.push(Op::Clone),
            2 => ops.push(Op::Switch),
            _ => {}
        }
    }
    ops
}

pub fn run(ctx: &mut Ctx) {
    let mut o = GenOpts::conv_all(&ALL_PT);
    o.alpha_mode = 2;
    o.nearest = true;
    o.max_side = if ctx.is_miri { 7 } else { 40 };
    o.strip_max = if ctx.is_miri { 0 } else { 600 };
    let total = ctx.n;
    let seed = ctx.seed;
    let miri = ctx.is_miri;
    let big = ctx.sub == "big";
    ctx.drive(
        total,
        |_, idx| {
            let mut rng = Rng::for_case(seed, "C09", idx);
            if big {
                return Some(big_history(&mut rng, &o));
            }
            let len = if miri { rng.range(4, 7) } else { rng.range(40, 200) } as usize;
            let mut ops = Vec::with_capacity(len);
            let mut cur_ext = *rng.pick(&ALL_EXT);
            let mut prev: Option<RCase> = None;
            let mut stats_near = 0u32;
            let _ = &mut stats_near;
            // phases: growing sizes then shrinking, so that buffers are reused without growth
            for k in 0..len {
                let r = rng.below(20);
                if r == 0 {
                    ops.push(Op::Reset);
                } else if r == 1 {
                    ops.push(Op::Clone);
                } else if r == 2 {
                    ops.push(Op::Switch);
                } else {
                    let mut c = random_case(&mut rng, &o);
                    // a quarter of the calls repeat the previous call with one thing changed (crop position, filter,
                    // algorithm, alpha flag, contents): what a cache keyed on too little would get wrong
                    if let (Some(p), true) = (&prev, rng.chance(1, 4)) {
                        c = p.clone();
                        match rng.below(6) {
                            0 => {
                                let [l, t, w, h] = c.crop_box();
                                let nl = if l + w + 1.0 <= c.sw as f64 && rng.chance(1, 2) { l + 1.0 } else if l >= 1.0 { l - 1.0 } else { l + (c.sw as f64 - l - w) * rng.unit() };
                                c.crop = Crop::Box([nl, t, w, h]);
                            }
                            1 => {
                                let [l, t, w, h] = c.crop_box();
                                let nt = if t + h + 1.0 <= c.sh as f64 && rng.chance(1, 2) { t + 1.0 } else if t >= 1.0 { t - 1.0 } else { t + (c.sh as f64 - t - h) * rng.unit() };
                                c.crop = Crop::Box([l, nt, w, h]);
                            }
                            2 => {
                                let f = *rng.pick(&BUILTIN);
                                c.alg = match c.alg {
                                    Alg::Conv(_) => Alg::Conv(f),
                                    Alg::Interp(_) => Alg::Interp(f),
                                    Alg::Super(_, m) => Alg::Super(f, m),
                                    Alg::Nearest => Alg::Conv(f),
                                };
                            }
                            3 => c.use_alpha = !c.use_alpha,
                            4 => c.content = gen_content(&mut rng, pt_kind(c.pt)),
                            5 if rng.chance(1, 2) => {
                                // the destination a few percent bigger or smaller (a decision with memory, e.g. a threshold with
                                // hysteresis, answers differently than for the same call on a fresh object)
                                let f = 1.0 + (rng.unit() - 0.5) * 0.1;
                                c.dw = ((c.dw as f64 * f).round() as u32).max(1);
                                c.dh = ((c.dh as f64 * f).round() as u32).max(1);
                            }
                            _ => {
                                c.alg = match c.alg {
                                    Alg::Conv(f) => Alg::Interp(f),
                                    Alg::Interp(f) => Alg::Super(f, 2),
                                    Alg::Super(f, _) => Alg::Conv(f),
                                    Alg::Nearest => Alg::Conv(Filt::Box),
                                };
                            }
                        }
                        stats_near += 1;
                    }
                    if !miri && rng.chance(1, 12) {
                        // SuperSampling with scale / multiplicity just above or below 1.2 (where it switches between one and two steps)
                        let m = rng.range(1, 3) as u8;
                        let f = *rng.pick(&[Filt::Box, Filt::Bilinear, Filt::Hamming]);
                        let d = rng.range(8, 40) as u32;
                        let factor = 1.2 * m as f64 * (0.93 + 0.14 * rng.unit());
                        c.sw = ((d as f64 * factor).round() as u32).max(1);
                        c.sh = c.sw;
                        c.dw = d;
                        c.dh = d;
                        c.crop = Crop::None;
                        c.alg = Alg::Super(f, m);
                        if let Some(p) = &prev {
                            if let Alg::Super(_, pm) = p.alg {
                                if pm == m && rng.chance(2, 3) {
                                    // same source as the previous call, destination within a few percent
                                    c.pt = p.pt;
                                    c.sw = p.sw;
                                    c.sh = p.sh;
                                    let g = 1.0 + (rng.unit() - 0.5) * 0.09;
                                    c.dw = ((p.dw as f64 * g).round() as u32).max(1);
                                    c.dh = c.dw;
                                }
                            }
                        }
                        c.content = gen_content(&mut rng, pt_kind(c.pt));
                    }
                    let phase = (k * 4 / len) % 2;
                    if phase == 1 && !miri && prev.as_ref().map_or(true, |p| p.sw != c.sw || p.pt != c.pt) {
                        // smaller images after bigger ones
                        c.sw = (c.sw / 3).max(1);
                        c.sh = (c.sh / 3).max(1);
                        c.dw = (c.dw / 3).max(1);
                        c.dh = (c.dh / 3).max(1);
                        c.crop = Crop::None;
                    }
                    // saturated contents make stale scratch as damaging as possible
                    if rng.chance(1, 3) {
                        let (lo, hi) = match pt_kind(c.pt) {
                            CompKind::F32 => (-1.0e6, 1.0e6),
                            k => k.range(),
                        };
                        c.content = Content { kind: 1, seed: rng.next(), a: if rng.chance(1, 2) { hi } else { lo }, b: 0.0 };
                    }
                    c.alpha = if pt_has_alpha(c.pt) { Some(gen_alpha_pat(&mut rng)) } else { None };
                    // the back-end changes only now and then, so that resets and clones happen between calls on one back-end
                    if rng.chance(1, 6) {
                        cur_ext = *rng.pick(&ALL_EXT);
                    }
                    let ext = cur_ext;
                    if r == 3 {
                        c.crop = Crop::Box([0.0, 0.0, c.sw as f64 + 1.0, c.sh as f64]);
                        ops.push(Op::Failing(c, ext));
                    } else {
                        prev = Some(c.clone());
                        ops.push(Op::Resize(c, ext));
                    }
                }
            }
            Some(ops)
        },
        describe,
        |ops, stats, viols| {
            let mut copies = [Resizer::new(), Resizer::new()];
            // the back-end is set only when it changes, so that it is part of the history like everything else
            let mut exts: [Option<Ext>; 2] = [None, None];
            let mut cur = 0usize;
            stats.nontrivial(&describe(ops));
            for (k, op) in ops.iter().enumerate() {
                if !viols.is_empty() {
                    break;
                }
                match op {
                    Op::Reset => {
                        copies[cur].reset_internal_buffers();
                        stats.count("resets", 1);
                        if copies[cur].size_of_internal_buffers() != 0 {
                            viols.push(Viol::new("reset_keeps_buffers", format!("call {}: size_of_internal_buffers = {} after reset", k, copies[cur].size_of_internal_buffers())));
                        }
                    }
                    Op::Clone => {
                        copies[1 - cur] = copies[cur].clone();
                        exts[1 - cur] = exts[cur];
                        stats.count("clones", 1);
                    }
                    Op::Switch => {
                        cur = 1 - cur;
                        stats.count("switches", 1);
                    }
                    Op::Resize(c, ext) | Op::Failing(c, ext) => {
                        let failing = matches!(op, Op::Failing(..));
                        if exts[cur] != Some(*ext) {
                            unsafe { copies[cur].set_cpu_extensions(ext.to_fr()) };
                            exts[cur] = Some(*ext);
                            stats.count("backend_switches", 1);
                        }
                        with_px!(c.pt, P => one_call::<P>(&mut copies[cur], c, *ext, failing, k, stats, viols));
                    }
                }
            }
        },
    );
}

fn one_call<P: Px>(r: &mut Resizer, c: &RCase, ext: Ext, failing: bool, k: usize, stats: &mut Stats, viols: &mut Vec<Viol>) {
    let src = make_pixels::<P>(c.sw, c.sh, &c.content, c.alpha.as_ref());
    let opts = c.options();
    if Ext::of(r.cpu_extensions()) != ext {
        viols.push(Viol::new("depends_on_history", format!("call {}: cpu_extensions() reports {:?}, {} was set", k, r.cpu_extensions(), ext.name())));
    }
    let (got, events) = record(|| resize_with::<P>(r, &src, c.sw, c.sh, c.dw, c.dh, &opts));
    let fresh = resize_vec::<P>(&src, c.sw, c.sh, c.dw, c.dh, &opts, ext);
    stats.count("calls_compared", 1);
    stats.seen("pixel_sizes", std::mem::size_of::<P>());
    stats.max("internal_buffers_bytes_max", r.size_of_internal_buffers() as f64);
    if let Some(h) = hook_violation(&events) {
        viols.push(Viol::new("hook_violation", format!("call {}: {}", k, h)));
    }
    for e in &events {
        if let Event::Scratch { prev_len, required, head_gap, grown, pixel_size } = e {
            stats.count("scratch_uses", 1);
            if *grown {
                stats.count("scratch_grown", 1);
            } else if *prev_len > *required {
                stats.count("scratch_reused_bigger_than_needed", 1);
            } else {
                stats.count("scratch_reused_exact", 1);
            }
            if *head_gap > 0 {
                stats.count("scratch_misaligned_head", 1);
            }
            stats.seen("scratch_pixel_sizes", pixel_size);
        }
    }
    match (got, fresh) {
        (Ok(a), Ok(b)) => {
            if failing {
                viols.push(Viol::new("invalid_call_succeeded", format!("call {}", k)));
            }
            if P::bits_of(&a) != P::bits_of(&b) {
                let i = (0..a.len()).find(|&i| P::bits_of(&[a[i]]) != P::bits_of(&[b[i]])).unwrap();
                viols.push(
                    Viol::new("depends_on_history", format!("call {} ({} {}): pixel {} = {:?} with the long-lived Resizer, {:?} with a fresh one", k, c.short(), ext.name(), i, a[i], b[i]))
                        .sig(json!({"pt": P::NAME, "ext": ext.name()})),
                );
            }
        }
        (Err(a), Err(b)) => {
            stats.count("erroring_calls", 1);
            if format!("{:?}", a) != format!("{:?}", b) {
                viols.push(Viol::new("depends_on_history", format!("call {}: {:?} vs {:?}", k, a, b)));
            }
        }
        (a, b) => viols.push(Viol::new("depends_on_history", format!("call {}: long-lived {:?}, fresh {:?}", k, a.map(|_| ()), b.map(|_| ())))),
    }
}
