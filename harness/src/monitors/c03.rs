//! C03: no input reachable through the safe API causes UB, a crash or a panic.
//!
//! The oracle here is mostly the build flavour (AddressSanitizer, Miri, debug assertions, std's unsafe
//! precondition checks) plus the H1 invariant hook; this monitor supplies the hostile workload and
//! classifies panics (tolerated only for custom filters outside the sum|w| < 4 envelope).
use crate::c13::gen_pair;
use firv::containers::*;
use firv::content::*;
use firv::exec::*;
use firv::fr;
use firv::gen::*;
use firv::px::*;
use firv::rng::Rng;
use firv::run::*;
use firv::serde_json::{json, Value};
use firv::spec::*;
use firv::{with_alpha_px, with_dyn_dst, with_dyn_src, with_px, with_typed_dst};
use fr::images::*;
use fr::{FilterType, MulDiv, PixelType, Resizer};

pub struct Step {
    c: RCase,
    sk: SrcKind,
    sp: Place,
    dk: DstKind,
    dp: Place,
    ext: Ext,
    /// 0 resize; 1..=4 alpha ops (possibly with mismatched sizes); 5 reset_internal_buffers; 6 clone the resizer;
    /// 7 mapper with mismatched arguments; 8 change_type with mismatched arguments
    op: u8,
    aux: u32,
}

fn hostile_f64(rng: &mut Rng, e: u32) -> f64 {
    let e = e as f64;
    match rng.below(20) {
        0 => f64::NAN,
        1 => f64::INFINITY,
        2 => f64::NEG_INFINITY,
        3 => -0.0,
        4 => -1e-300,
        5 => -1.0,
        6 => 0.0,
        7 => 5e-324,
        8 => 1e-300,
        9 => e - 1.0,
        10 => pred(e),
        11 => e,
        12 => f64::from_bits(e.to_bits() + 1),
        13 => e + 1.0,
        14 => 1e300,
        15 => -1e7,
        16 => 1e7 + e,
        17 => e - pred(e),
        _ => e * rng.unit(),
    }
}

fn gen_step(rng: &mut Rng, max_side: u32, all_filters: &[Filt]) -> Step {
    let pt = *rng.pick(&ALL_PT);
    let size = |rng: &mut Rng| -> u32 {
        match rng.below(12) {
            0 => 0,
            1 => 1,
            2 if max_side > 20 => rng.range(1, 300) as u32,
            _ => rng.range(1, max_side as u64) as u32,
        }
    };
    let (mut sw, mut sh, mut dw, mut dh) = (size(rng), size(rng), size(rng), size(rng));
    // keep strips thin
    if sw > max_side && sh > 4 {
        sh = rng.range(1, 4) as u32;
    }
    if dw > max_side && dh > 4 {
        dh = rng.range(1, 4) as u32;
    }
    if sh > max_side && sw > 4 {
        sw = rng.range(1, 4) as u32;
    }
    if dh > max_side && dw > 4 {
        dw = rng.range(1, 4) as u32;
    }
    let crop = match rng.below(6) {
        0 => Crop::None,
        1 | 2 if sw > 0 && sh > 0 => gen_crop(rng, sw, sh),
        3 => Crop::Fit(hostile_f64(rng, 1), hostile_f64(rng, 1)),
        _ => Crop::Box([hostile_f64(rng, sw), hostile_f64(rng, sh), hostile_f64(rng, sw), hostile_f64(rng, sh)]),
    };
    let f = *rng.pick(all_filters);
    let alg = match rng.below(8) {
        0 => Alg::Nearest,
        1 | 2 | 3 => Alg::Conv(f),
        4 => Alg::Interp(f),
        _ => Alg::Super(f, *rng.pick(&[0u8, 1, 1, 2, 3, 4, 255])),
    };
    let (mut sk, mut dk) = gen_pair(rng);
    if sw == 0 || sh == 0 {
        sk = if sk.is_dyn() { SrcKind::DynRef } else { SrcKind::Ref };
    }
    if dw == 0 || dh == 0 {
        dk = if dk.is_dyn() { DstKind::DynImage } else { DstKind::Typed };
    }
    if !pair_supported(sk, dk) {
        sk = SrcKind::Ref;
        dk = DstKind::Typed;
    }
    let mut op = match rng.below(16) {
        0 if pt_has_alpha(pt) => 1 + rng.below(4) as u8,
        1 => 5,
        2 => 6,
        3 => 7,
        4 => 8,
        5 => 9,
        _ => 0,
    };
    if op >= 1 && op <= 4 {
        sk = SrcKind::Ref;
        if !(dk == DstKind::Typed || dk == DstKind::CropMut || dk == DstKind::NestedMut) {
            dk = DstKind::Typed;
        }
    }
    if op >= 7 {
        sk = SrcKind::DynRef;
        dk = DstKind::DynImage;
    }
    if op == 9 && (sw == 0 || sh == 0) {
        op = 0;
    }
    if (op == 7 || op == 8) && rng.chance(1, 2) {
        // same sizes: exercise the success path of the other entry points too
        dw = sw;
        dh = sh;
    }
    if op >= 1 && op <= 4 && rng.chance(3, 4) {
        dw = sw;
        dh = sh;
    }
    if sw == 0 || sh == 0 {
        if op >= 1 && op <= 4 { /* zero-sized alpha ops are fine */ }
    }
    let use_alpha = rng.chance(1, 2);
    // half of the placements are exact-fit (allocation ends at the last pixel of the view: the sanitizer's red
    // zone is flush against it), half have margins / spare rows on every side (a stray write lands in a sentinel)
    let exact = rng.chance(1, 2);
    let sp = gen_place(rng, sw, sh, sk.is_crop(), exact);
    let dp = gen_place(rng, dw, dh, dk.is_crop(), exact);
    if op == 0 && false {
        op = 0;
    }
    Step {
        c: RCase { pt, sw, sh, dw, dh, crop, alg, use_alpha, content: if rng.chance(1, 5) { Content { kind: 9, seed: rng.next(), a: 0.0, b: 0.0 } } else { gen_content(rng, pt_kind(pt)) }, alpha: if pt_has_alpha(pt) { Some(gen_alpha_pat(rng)) } else { None } },
        sk,
        sp,
        dk,
        dp,
        ext: *rng.pick(&ALL_EXT),
        op,
        aux: rng.next() as u32,
    }
}

fn describe_step(s: &Step) -> Value {
    let mut v = s.c.to_json();
    v["src_container"] = json!({"kind": format!("{:?}", s.sk), "place": s.sp.to_json()});
    v["dst_container"] = json!({"kind": format!("{:?}", s.dk), "place": s.dp.to_json()});
    v["backend"] = json!(s.ext.name());
    v["op"] = json!(["resize", "multiply_alpha", "divide_alpha", "multiply_alpha_inplace", "divide_alpha_inplace", "reset_internal_buffers", "clone_resizer", "mapper", "change_type", "mismatched_pixel_types"][s.op as usize]);
    v
}

fn all_filters() -> Vec<Filt> {
    let mut v: Vec<Filt> = BUILTIN.to_vec();
    for i in 0..CUSTOM.len() {
        v.push(Filt::Custom(i as u8));
    }
    v
}

pub fn run(ctx: &mut Ctx) {
    match ctx.sub.as_str() {
        "sweep" => return run_sweep(ctx),
        _ => {}
    }
    let total = ctx.n;
    let seed = ctx.seed;
    let max_side: u32 = if ctx.is_miri { 10 } else { 28 };
    let filters = all_filters();
    let miri = ctx.is_miri;
    ctx.drive(
        total,
        |_, idx| {
            let mut rng = Rng::for_case(seed, "C03", idx);
            let len = if miri { rng.range(1, 2) } else { rng.range(1, 6) } as usize;
            Some((0..len).map(|_| gen_step(&mut rng, max_side, &filters)).collect::<Vec<Step>>())
        },
        |steps| json!({"calls_on_one_resizer": steps.iter().map(describe_step).collect::<Vec<_>>()}),
        |steps, stats, viols| {
            let mut r = Resizer::new();
            for (k, s) in steps.iter().enumerate() {
                with_px!(s.c.pt, P => exec_step::<P>(&mut r, s, k, stats, viols));
                if !viols.is_empty() {
                    break;
                }
            }
            stats.nontrivial(&json!(steps.iter().map(describe_step).collect::<Vec<_>>()));
        },
    );
}

fn exec_step<P: Px>(r: &mut Resizer, s: &Step, k: usize, stats: &mut Stats, viols: &mut Vec<Viol>) {
    let c = &s.c;
    unsafe { r.set_cpu_extensions(s.ext.to_fr()) };
    stats.count("api_calls", 1);
    match s.op {
        5 => {
            r.reset_internal_buffers();
            stats.count("resets", 1);
            return;
        }
        6 => {
            *r = r.clone();
            stats.count("clones", 1);
            return;
        }
        _ => {}
    }
    let src = make_pixels::<P>(c.sw, c.sh, &c.content, c.alpha.as_ref());
    let spat = if s.aux % 3 == 0 { 0xAAAA | NONFINITE } else { 0xAAAA };
    let mut sb = Backing::<P>::new(s.sp, c.sw, c.sh, spat);
    sb.put(&src);
    let mut db = Backing::<P>::new(s.dp, c.dw, c.dh, 0xBBBB);
    let custom = c.alg.filt().map_or(false, |f| f.is_custom());
    let what = format!("call {} ({})", k, describe_step(s)["op"].as_str().unwrap_or(""));
    let (res, events): (Result<Result<(), String>, String>, Vec<Event>) = match s.op {
        0 => {
            let opts = c.options();
            stats.seen("algorithms", c.alg.short());
            stats.seen("container_pairs", format!("{:?}->{:?}", s.sk, s.dk));
            stats.count("resize_calls", 1);
            record_catch(|| resize_through::<P>(r, &sb, s.sk, &mut db, s.dk, &opts).map_err(|e| format!("{:?}", e)))
        }
        1..=4 => {
            stats.count("alpha_calls", 1);
            if !P::HAS_ALPHA {
                return;
            }
            record_catch(|| alpha_call::<P>(s, &sb, &mut db))
        }
        7 => {
            stats.count("mapper_calls", 1);
            record_catch(|| mapper_call::<P>(s, &sb, &mut db))
        }
        8 => {
            stats.count("change_type_calls", 1);
            record_catch(|| change_call::<P>(s, &sb, &mut db))
        }
        _ => {
            // dynamic entry points with images of different pixel types: documented errors, never a panic
            stats.count("mismatched_type_calls", 1);
            record_catch(|| mismatched_call::<P>(r, s, &sb))
        }
    };
    if let Some(h) = hook_violation(&events) {
        viols.push(Viol::new("hook_violation", format!("{}: {}", what, h)).sig(json!({"pt": P::NAME})));
    }
    for e in &events {
        if let Event::Pass { .. } = e {
            stats.count("passes", 1);
        }
    }
    // "never reads or writes outside the buffers it was given": the surroundings of the destination view and
    // the whole source backing store must be untouched (a stray write inside the parent allocation is invisible
    // to a sanitizer)
    if let Some(i) = db.first_outside_change(0xBBBB) {
        let pw = s.dp.pw.max(1) as usize;
        viols.push(
            Viol::new("write_outside_destination", format!("{}: backing pixel {} (x={}, y={}) outside the {}x{} destination view at ({},{}) changed", what, i, i % pw, i / pw, c.dw, c.dh, s.dp.left, s.dp.top))
                .sig(json!({"pt": P::NAME, "dst": format!("{:?}", s.dk)})),
        );
    }
    {
        let mut check = Backing::<P>::new(s.sp, c.sw, c.sh, spat);
        check.put(&src);
        if P::bits_of(&check.buf) != P::bits_of(&sb.buf) {
            viols.push(Viol::new("source_modified", format!("{}: the source backing store changed", what)).sig(json!({"pt": P::NAME})));
        }
    }
    stats.count("sentinel_checks", 1);
    match res {
        Ok(Ok(())) => stats.count("returned_ok", 1),
        Ok(Err(e)) => {
            stats.count("returned_err", 1);
            stats.seen("errors", e);
        }
        Err(msg) => {
            let m = max_abs_sum(&events);
            let outside = m.map_or(false, |m| !(m < 4.0));
            if custom && outside {
                stats.count("panics_outside_envelope_tolerated", 1);
                stats.seen("tolerated_panic_locations", msg.rsplit(" @ ").next().unwrap_or(""));
            } else {
                let loc = msg.rsplit(" @ ").next().unwrap_or("").to_string();
                viols.push(Viol::new("panic", format!("{}: {} (max sum|w| = {:?})", what, msg, m)).sig(json!({ "location": loc })));
            }
        }
    }
}

fn alpha_call<P: Px>(s: &Step, sb: &Backing<P>, db: &mut Backing<P>) -> Result<(), String> {
    let mut md = MulDiv::new();
    unsafe { md.set_cpu_extensions(s.ext.to_fr()) };
    let divide = s.op == 2 || s.op == 4;
    let inplace = s.op >= 3;
    if inplace {
        with_typed_dst!(P, db, s.dk, |d| (if divide { md.divide_alpha_inplace_typed(&mut d) } else { md.multiply_alpha_inplace_typed(&mut d) }).map_err(|e| format!("{:?}", e)))
    } else {
        let src = TypedImageRef::<P>::new(sb.w, sb.h, &sb.buf).unwrap();
        with_typed_dst!(P, db, s.dk, |d| (if divide { md.divide_alpha_typed(&src, &mut d) } else { md.multiply_alpha_typed(&src, &mut d) }).map_err(|e| format!("{:?}", e)))
    }
}

fn other_type(pt: PixelType, aux: u32) -> PixelType {
    if cfg!(miri) {
        // Miri gives Vec<u8> an alignment of 1, so `Image::new` of a 16/32-bit type is not constructible there
        // (it relies on the allocator over-aligning): a Miri artefact, not a verdict
        let c = [PixelType::U8, PixelType::U8x2, PixelType::U8x3, PixelType::U8x4];
        let k = aux as usize % 4;
        return if c[k] == pt { c[(k + 1) % 4] } else { c[k] };
    }
    ALL_PT[(ALL_PT.iter().position(|&p| p == pt).unwrap() + 1 + (aux as usize % 12)) % 13]
}

/// mapper with whatever (source type, destination type, sizes) came out of the generator: mostly rejected
fn mapper_call<P: Px>(s: &Step, sb: &Backing<P>, db: &mut Backing<P>) -> Result<(), String> {
    use std::sync::OnceLock;
    static M: OnceLock<fr::PixelComponentMapper> = OnceLock::new();
    let mp = M.get_or_init(fr::create_srgb_mapper);
    let forward = s.aux & 1 == 0;
    if s.aux & 6 == 0 {
        return with_dyn_dst!(P, db, s.dk, |d| (if forward { mp.forward_map_inplace(&mut d) } else { mp.backward_map_inplace(&mut d) }).map_err(|e| format!("{:?}", e)));
    }
    if s.aux & 8 == 0 {
        // other destination pixel type
        let dpt = other_type(P::PT, s.aux >> 4);
        let mut dst = Image::new(s.c.dw, s.c.dh, dpt);
        return with_dyn_src!(P, sb, s.sk, |src| (if forward { mp.forward_map(&src, &mut dst) } else { mp.backward_map(&src, &mut dst) }).map_err(|e| format!("{:?}", e)));
    }
    with_dyn_src!(P, sb, s.sk, |src| with_dyn_dst!(P, db, s.dk, |d| (if forward { mp.forward_map(&src, &mut d) } else { mp.backward_map(&src, &mut d) }).map_err(|e| format!("{:?}", e))))
}

fn mismatched_call<P: Px>(r: &mut Resizer, s: &Step, sb: &Backing<P>) -> Result<(), String> {
    let dpt = other_type(P::PT, s.aux >> 4);
    let mut dst = Image::new(s.c.dw, s.c.dh, dpt);
    let opts = s.c.options();
    let md = MulDiv::new();
    with_dyn_src!(P, sb, SrcKind::DynRef, |src| {
        let a = r.resize(&src, &mut dst, &opts).map_err(|e| format!("{:?}", e));
        let b = md.multiply_alpha(&src, &mut dst).map_err(|e| format!("{:?}", e));
        let c = md.divide_alpha(&src, &mut dst).map_err(|e| format!("{:?}", e));
        // views of the wrong pixel type do not exist
        let wrong_view = {
            use fr::IntoImageView;
            src.image_view::<fr::pixels::U8x3>().is_some() && P::PT != PixelType::U8x3
        };
        if a.is_ok() || b.is_ok() || c.is_ok() || wrong_view {
            panic!("images of different pixel types accepted: resize {:?}, multiply {:?}, divide {:?}, wrong view {}", a, b, c, wrong_view);
        }
        a
    })
}

fn change_call<P: Px>(s: &Step, sb: &Backing<P>, db: &mut Backing<P>) -> Result<(), String> {
    if s.aux & 1 == 0 {
        let dpt = other_type(P::PT, s.aux >> 4);
        let mut dst = Image::new(s.c.dw, s.c.dh, dpt);
        return with_dyn_src!(P, sb, s.sk, |src| fr::change_type_of_pixel_components(&src, &mut dst).map_err(|e| format!("{:?}", e)));
    }
    with_dyn_src!(P, sb, s.sk, |src| with_dyn_dst!(P, db, s.dk, |d| fr::change_type_of_pixel_components(&src, &mut d).map_err(|e| format!("{:?}", e))))
}

// ---------------------------------------------------------------- H2 sweep: windows without pixel data

#[derive(Debug)]
struct Geo {
    in_size: u32,
    out_size: u32,
    in0: f64,
    in1: f64,
    filt: Filt,
    adaptive: bool,
}

fn run_sweep(ctx: &mut Ctx) {
    let total = ctx.n;
    let seed = ctx.seed;
    let filters = all_filters();
    ctx.drive(
        total,
        |_, idx| {
            let mut rng = Rng::for_case(seed, "C03sweep", idx);
            let big = |rng: &mut Rng| -> u32 {
                match rng.below(6) {
                    0 => rng.range(1, 16) as u32,
                    1 => rng.range(1, 300) as u32,
                    2 => *rng.pick(&[255u32, 256, 257, 4095, 4096, 4097, 65_535]),
                    _ => rng.range(1, 65_535) as u32,
                }
            };
            let in_size = big(&mut rng);
            let filt = *rng.pick(&filters);
            let adaptive = rng.chance(3, 4);
            // keep window_size * out_size bounded (no pixel data, but the coefficient table is real)
            let mut out_size = big(&mut rng);
            let w = in_size as f64;
            let (in0, in1) = match rng.below(6) {
                0 => (0.0, w),
                1 => {
                    let a = (rng.unit() * w).floor();
                    (a, (a + 1.0 + (rng.unit() * (w - a - 1.0).max(0.0)).floor()).min(w))
                }
                2 => {
                    let a = rng.unit() * w * 0.9;
                    (a, a + (w - a) * rng.unit().max(1e-9))
                }
                3 => (pred(w), w),
                4 => (w - (w - pred(w)) * rng.range(1, 3) as f64, w),
                _ => {
                    let a = rng.unit() * w;
                    (a, w)
                }
            };
            let scale = ((in1 - in0) / out_size as f64).max(1.0);
            let sup = firv::refmodel::support(filt);
            let window = (sup * if adaptive { scale } else { 1.0 }).ceil() * 2.0 + 1.0;
            while out_size as f64 * window > 4.0e6 && out_size > 1 {
                out_size /= 2;
            }
            if !(in1 > in0) {
                return None;
            }
            Some(Geo { in_size, out_size, in0, in1, filt, adaptive })
        },
        |g| json!({"in_size": g.in_size, "out_size": g.out_size, "in0": f64_show(g.in0), "in1": f64_show(g.in1), "in0_bits": f64_to_json(g.in0), "in1_bits": f64_to_json(g.in1), "filter": g.filt.name(), "adaptive": g.adaptive}),
        |g, stats, viols| {
            let ft: FilterType = g.filt.to_fr();
            let info = fr::verif_hooks::coefficients(g.in_size, g.in0, g.in1, g.out_size, ft, g.adaptive);
            stats.nontrivial(&json!([g.in_size, g.out_size, f64_to_json(g.in0), f64_to_json(g.in1), g.filt.name(), g.adaptive]));
            stats.count("windows_checked", info.bounds.len() as u64);
            let mut bad: Option<String> = None;
            if info.bounds.len() != g.out_size as usize {
                bad = Some(format!("{} windows for {} output pixels", info.bounds.len(), g.out_size));
            }
            if info.values.len() != info.window_size * info.bounds.len() {
                bad = Some(format!("{} coefficients for window_size {} x {} windows", info.values.len(), info.window_size, info.bounds.len()));
            }
            let mut max_sum = 0.0f64;
            for (i, &(start, size)) in info.bounds.iter().enumerate() {
                if start as u64 + size as u64 > g.in_size as u64 {
                    bad = Some(format!("window {}: start {} + size {} > in_size {}", i, start, size, g.in_size));
                    break;
                }
                if size as usize > info.window_size {
                    bad = Some(format!("window {}: size {} > window_size {}", i, size, info.window_size));
                    break;
                }
                let ws = &info.values[i * info.window_size..i * info.window_size + size as usize];
                let s: f64 = ws.iter().map(|v| v.abs()).sum();
                max_sum = if s.is_nan() { f64::INFINITY } else { max_sum.max(s) };
                if !g.filt.is_custom() && ws.iter().any(|v| !v.is_finite()) {
                    bad = Some(format!("window {}: non-finite weight of a built-in filter", i));
                    break;
                }
                if !g.filt.is_custom() {
                    let sum: f64 = ws.iter().sum();
                    if size > 0 && (sum - 1.0).abs() > 1e-9 {
                        bad = Some(format!("window {}: weights of a built-in filter sum to {}", i, sum));
                        break;
                    }
                    if size == 0 {
                        bad = Some(format!("window {}: empty window of a built-in filter", i));
                        break;
                    }
                }
            }
            if let Some(b) = bad {
                viols.push(Viol::new("window_invariant", format!("{:?}: {}", g, b)).sig(json!({"filter": g.filt.name()})));
                return;
            }
            stats.max("max_abs_weight_sum_builtin", if g.filt.is_custom() { 0.0 } else { max_sum });
            if max_sum < 4.0 {
                stats.count("geometries_inside_envelope", 1);
                let (p16, q16) = fr::verif_hooks::normalizer16(&info);
                let (p32, _) = fr::verif_hooks::normalizer32(&info);
                stats.seen("precisions_u8", p16);
                stats.seen("precisions_u16", p32);
                // the SIMD kernels dispatch on the precision: 1..=31 without 11; >= 4 is documented as required
                if p16 < 4 || p16 == 11 || p16 > 21 || p32 < 4 || p32 > 45 {
                    viols.push(Viol::new("precision_outside_dispatch_table", format!("{:?}: u8 precision {}, u16 precision {} inside the envelope (max sum|w| {})", g, p16, p32, max_sum)).sig(json!({"filter": g.filt.name()})));
                }
                // quantised coefficients of a window sum close to 2^precision (drift bounded by the window length)
                let mut drift_max = 0i64;
                for (_, q) in &q16 {
                    let s: i64 = q.iter().map(|&v| v as i64).sum();
                    drift_max = drift_max.max((s - (1i64 << p16)).abs());
                }
                if !g.filt.is_custom() {
                    stats.max("max_u8_quantisation_drift_builtin", drift_max as f64);
                }
            } else {
                stats.count("geometries_outside_envelope", 1);
            }
        },
    );
    let _ = PixelType::U8;
    let _ = with_alpha_px!(PixelType::U8x2, P => <P as Px>::NC);
}
