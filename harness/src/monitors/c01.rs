//! C01: convolution resizing equals the ideal separable filter within rounding error.
use firv::content::*;
use firv::exec::*;
use firv::gen::*;
use firv::px::*;
use firv::refmodel::*;
use firv::run::*;
use firv::serde_json::json;
use firv::spec::*;
use firv::with_px;

pub fn run(ctx: &mut Ctx) {
    let mut o = GenOpts::conv_all(&ALL_PT);
    if !ctx.quick() {
        o.strip_max = 70_000;
        o.max_side = 96;
    }
    if ctx.is_miri {
        o.max_side = 12;
        o.strip_max = 0;
    }
    let total = ctx.n;
    let strat = (total / 2).min(STRAT_CYCLE);
    let seed = ctx.seed;
    ctx.drive(
        total,
        |_, idx| Some(resize_case(seed, "C01", idx, strat, &o)),
        |c| c.to_json(),
        |c, stats, viols| with_px!(c.pt, P => exec::<P>(c, stats, viols)),
    );
}

fn exec<P: Px>(c: &RCase, stats: &mut Stats, viols: &mut Vec<Viol>) {
    let src = make_pixels::<P>(c.sw, c.sh, &c.content, c.alpha.as_ref());
    let crop = c.crop_box();
    let (sw, sh, dw, dh) = (c.sw as usize, c.sh as usize, c.dw as usize, c.dh as usize);
    let kind = P::kind();
    let refs: Vec<Plane> = planes::<P>(&src).iter().map(|pl| reference(pl, sw, sh, crop, dw, dh, c.alg, kind)).collect();
    let (klen, both) = geometry_class(sw, sh, crop, dw, dh, c.alg);
    if klen >= 2 {
        stats.nontrivial(&c.to_json());
    }
    stats.seen("kernel_len_mod8", klen % 8);
    stats.max("kernel_len_max", klen as f64);
    if both {
        stats.count("two_pass_cases", 1);
    }
    stats.seen("algorithms", c.alg.short());
    let opts = c.options();
    // Every fourth Convolution/Interpolation case is judged on a Resizer that has just served the *sibling* algorithm
    // (Convolution <-> Interpolation, same filter, same geometry): the ideal result does not depend on what the Resizer did
    // before, so anything it keeps between calls (scratch images - or, in a seeded change, cached coefficients) must not show.
    let sibling = match c.alg {
        Alg::Conv(f) if (c.sw + c.sh + c.dw + c.dh) % 4 == 0 => Some(Alg::Interp(f)),
        Alg::Interp(f) if (c.sw + c.sh + c.dw + c.dh) % 4 == 0 => Some(Alg::Conv(f)),
        _ => None,
    };
    let sibling_opts = sibling.map(|a| {
        let mut c2 = c.clone();
        c2.alg = a;
        c2.options()
    });
    if sibling.is_some() {
        stats.count("judged_after_sibling_algorithm", 1);
    }
    let run = |ext: Ext| {
        if let Some(so) = &sibling_opts {
            let mut r = resizer(ext);
            let _ = resize_with(&mut r, &src, c.sw, c.sh, c.dw, c.dh, so);
            resize_with(&mut r, &src, c.sw, c.sh, c.dw, c.dh, &opts)
        } else {
            resize_vec::<P>(&src, c.sw, c.sh, c.dw, c.dh, &opts, ext)
        }
    };
    for ext in ALL_EXT {
        #[cfg(fir_verif)]
        let (res, events) = record(|| run(ext));
        #[cfg(not(fir_verif))]
        let res = run(ext);
        #[cfg(fir_verif)]
        {
            if let Some(h) = hook_violation(&events) {
                viols.push(Viol::new("hook_violation", h));
            }
            for e in &events {
                if let Event::Pass { horizontal, precision, max_len, .. } = e {
                    stats.count(if *horizontal { "h_passes" } else { "v_passes" }, 1);
                    stats.seen(&format!("precisions_{}", kind.name()), precision);
                    stats.seen("observed_window_len_mod8", max_len % 8);
                }
            }
        }
        let out = match res {
            Ok(v) => v,
            Err(e) => {
                viols.push(Viol::new("unexpected_error", format!("{:?} with {}", e, ext.name())).sig(json!({"pt": P::NAME})));
                continue;
            }
        };
        let comps = P::components(&out);
        let nc = P::NC;
        let mut worst = 0.0f64;
        let mut bad: Option<String> = None;
        let mut nbad = 0u64;
        for i in 0..dw * dh {
            for ch in 0..nc {
                let got = comps[i * nc + ch].to_f64();
                let (want, e) = (refs[ch].val[i], refs[ch].err[i]);
                stats.count("samples", 1);
                if !e.is_finite() {
                    stats.count("samples_wide", 1);
                    continue;
                }
                let d = (got - want).abs();
                // NaN-safe: `!(d <= e)`
                if !(d <= e) {
                    nbad += 1;
                    if bad.is_none() {
                        bad = Some(format!(
                            "{} x={} y={} ch={} got={} ideal={} bound={} ({} bad samples)",
                            ext.name(), i % dw, i / dw, ch, got, want, e, 0
                        ));
                    }
                } else if e > 0.0 {
                    worst = worst.max(d / e);
                }
            }
        }
        stats.max(&format!("worst_error_over_bound_{}", kind.name()), worst);
        if let Some(b) = bad {
            viols.push(
                Viol::new("outside_bound", b.replace("(0 bad samples)", &format!("({} bad samples of {})", nbad, dw * dh * nc)))
                    .sig(json!({"pt": P::NAME, "ext": ext.name(), "alg": c.alg.short()})),
            );
        }
    }
}
