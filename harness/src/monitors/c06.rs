//! C06: alpha multiply is exactly rounded and alpha divide is faithful and saturating.
use firv::exec::*;
use firv::fr;
use firv::px::*;
use firv::rng::Rng;
use firv::run::*;
use firv::serde_json::json;
use firv::spec::*;
use firv::with_alpha_px;
use fr::images::*;
use fr::pixels::InnerPixel;
use fr::{MulDiv, PixelType};

/// exact: round half up of c*a/max
fn mul_exact(c: u64, a: u64, max: u64) -> u64 {
    (2 * c * a + max) / (2 * max)
}

/// exact: the two integers neighbouring c*max/a, saturated at max; a = 0 gives 0
fn div_exact(c: u64, a: u64, max: u64) -> (u64, u64) {
    if a == 0 {
        return (0, 0);
    }
    let n = c * max;
    let lo = n / a;
    let hi = (n + a - 1) / a;
    (lo.min(max), hi.min(max))
}

#[derive(Clone, Copy, Debug, PartialEq)]
enum Entry {
    Typed,
    TypedInplace,
    Dyn,
    DynInplace,
}
const ENTRIES: [Entry; 4] = [Entry::Typed, Entry::TypedInplace, Entry::Dyn, Entry::DynInplace];

thread_local! {
    /// long-lived MulDiv objects, one per back-end, shared by calls on every pixel type
    static SHARED: std::cell::RefCell<Vec<(Ext, MulDiv)>> = std::cell::RefCell::new(Vec::new());
}

fn apply<P: Px>(src: &[P], w: u32, h: u32, divide: bool, entry: Entry, ext: Ext) -> Result<Vec<P>, String> {
    // rows of odd length go through a MulDiv that has served other pixel types and sizes before, the others through a fresh one
    if w % 2 == 1 {
        return SHARED.with(|c| {
            let mut v = c.borrow_mut();
            if !v.iter().any(|(e, _)| *e == ext) {
                let mut md = MulDiv::new();
                unsafe { md.set_cpu_extensions(ext.to_fr()) };
                v.push((ext, md));
            }
            let md = &v.iter().find(|(e, _)| *e == ext).unwrap().1;
            apply_with::<P>(md, src, w, h, divide, entry)
        });
    }
    let mut md = MulDiv::new();
    unsafe { md.set_cpu_extensions(ext.to_fr()) };
    apply_with::<P>(&md, src, w, h, divide, entry)
}

fn apply_with<P: Px>(md: &MulDiv, src: &[P], w: u32, h: u32, divide: bool, entry: Entry) -> Result<Vec<P>, String> {
    let e = |e: fr::ImageError| format!("{:?}", e);
    let e2 = |e: fr::MulDivImagesError| format!("{:?}", e);
    match entry {
        Entry::Typed => {
            let s = TypedImageRef::<P>::new(w, h, src).unwrap();
            let mut out = sentinel::<P>(src.len());
            {
                let mut d = TypedImage::<P>::from_pixels_slice(w, h, &mut out).unwrap();
                if divide { md.divide_alpha_typed(&s, &mut d).map_err(e2)? } else { md.multiply_alpha_typed(&s, &mut d).map_err(e2)? }
            }
            Ok(out)
        }
        Entry::TypedInplace => {
            let mut out = src.to_vec();
            {
                let mut d = TypedImage::<P>::from_pixels_slice(w, h, &mut out).unwrap();
                if divide { md.divide_alpha_inplace_typed(&mut d).map_err(e)? } else { md.multiply_alpha_inplace_typed(&mut d).map_err(e)? }
            }
            Ok(out)
        }
        Entry::Dyn => {
            let s = ImageRef::from_pixels(w, h, src).unwrap();
            let mut out = sentinel::<P>(src.len());
            {
                let bytes = unsafe { std::slice::from_raw_parts_mut(out.as_mut_ptr() as *mut u8, out.len() * std::mem::size_of::<P>()) };
                let mut d = Image::from_slice_u8(w, h, bytes, P::PT).unwrap();
                if divide { md.divide_alpha(&s, &mut d).map_err(e2)? } else { md.multiply_alpha(&s, &mut d).map_err(e2)? }
            }
            Ok(out)
        }
        Entry::DynInplace => {
            let mut out = src.to_vec();
            {
                let bytes = unsafe { std::slice::from_raw_parts_mut(out.as_mut_ptr() as *mut u8, out.len() * std::mem::size_of::<P>()) };
                let mut d = Image::from_slice_u8(w, h, bytes, P::PT).unwrap();
                if divide { md.divide_alpha_inplace(&mut d).map_err(e)? } else { md.multiply_alpha_inplace(&mut d).map_err(e)? }
            }
            Ok(out)
        }
    }
}

/// Judge an integer result against the exact oracle. Returns the first mismatch.
fn judge_int<P: Px>(src: &[P], out: &[P], divide: bool, stats: &mut Stats) -> Option<String> {
    let nc = P::NC;
    let max = P::kind().range().1 as u64;
    let (sc, oc) = (P::components(src), P::components(out));
    for i in 0..src.len() {
        let a = sc[i * nc + nc - 1].bits();
        if oc[i * nc + nc - 1].bits() != a {
            return Some(format!("pixel {}: alpha changed from {} to {}", i, a, oc[i * nc + nc - 1].bits()));
        }
        for ch in 0..nc - 1 {
            let c = sc[i * nc + ch].bits();
            let got = oc[i * nc + ch].bits();
            let ok = if divide {
                let (lo, hi) = div_exact(c, a, max);
                if c > a && a > 0 {
                    stats.count("saturating_divisions", 1);
                }
                got == lo || got == hi
            } else {
                got == mul_exact(c, a, max)
            };
            if !ok {
                let want = if divide { format!("{:?}", div_exact(c, a, max)) } else { format!("{}", mul_exact(c, a, max)) };
                return Some(format!("pixel {} (lane {}) comp {}: colour {} alpha {} -> {}, exact arithmetic gives {}", i, i, ch, c, a, got, want));
            }
        }
    }
    stats.count("pixels_judged", src.len() as u64);
    None
}

fn judge_f32<P: Px>(src: &[P], out: &[P], divide: bool, stats: &mut Stats) -> Option<String> {
    let nc = P::NC;
    let (sc, oc) = (P::components(src), P::components(out));
    for i in 0..src.len() {
        let a = sc[i * nc + nc - 1].to_f64() as f32;
        if oc[i * nc + nc - 1].bits() != sc[i * nc + nc - 1].bits() {
            return Some(format!("pixel {}: alpha changed from {:?} to {:?}", i, sc[i * nc + nc - 1], oc[i * nc + nc - 1]));
        }
        for ch in 0..nc - 1 {
            let c = sc[i * nc + ch].to_f64() as f32;
            let got = oc[i * nc + ch].to_f64() as f32;
            let want: f32 = if divide { if a == 0.0 { 0.0 } else { c / a } } else { c * a };
            // equal as values (+0 and -0 identified); NaN is not generated
            if !(got == want) {
                return Some(format!("pixel {} comp {}: colour {:e} alpha {:e} -> {:e}, a single IEEE operation gives {:e}", i, ch, c, a, got, want));
            }
        }
    }
    stats.count("pixels_judged", src.len() as u64);
    None
}

fn check_all<P: Px>(src: &[P], w: u32, h: u32, divide: bool, what: &str, stats: &mut Stats, viols: &mut Vec<Viol>, exts: &[Ext], entries: &[Entry]) {
    for &ext in exts {
        for &entry in entries {
            let out = match apply::<P>(src, w, h, divide, entry, ext) {
                Ok(o) => o,
                Err(e) => {
                    viols.push(Viol::new("unexpected_error", format!("{} {:?} {}: {}", what, entry, ext.name(), e)));
                    continue;
                }
            };
            let bad = if P::kind() == CompKind::F32 { judge_f32::<P>(src, &out, divide, stats) } else { judge_int::<P>(src, &out, divide, stats) };
            if let Some(m) = bad {
                viols.push(
                    Viol::new(if divide { "divide_not_faithful" } else { "multiply_not_exact" }, format!("{} {} {:?} {}, row length {}: {}", P::NAME, what, entry, ext.name(), w, m))
                        .sig(json!({"pt": P::NAME, "ext": ext.name(), "divide": divide})),
                );
                return;
            }
        }
    }
}

pub fn run(ctx: &mut Ctx) {
    match ctx.sub.as_str() {
        "u8" => run_u8(ctx),
        "u16" => run_u16(ctx),
        "u16full" => run_u16_full(ctx),
        "f32" => run_f32(ctx),
        "unsupported" => run_unsupported(ctx),
        "small" => run_small(ctx),
        "patterns" => run_patterns(ctx),
        s => panic!("unknown sub {}", s),
    }
}

/// exhaustive: all 65 536 (colour, alpha) pairs at every lane of rows of length 1..=40
fn run_u8(ctx: &mut Ctx) {
    let lens: u64 = if ctx.is_miri { 2 } else { 40 };
    let total = lens * 2 * 2;
    ctx.stats.notes.push("exhaustive: all 65536 (colour, alpha) pairs x every lane of rows of length 1..=40 x U8x2/U8x4 x multiply/divide x 3 back-ends x 4 entry points".into());
    ctx.drive(
        total,
        |_, idx| Some(((idx % lens) as u32 + 1, if (idx / lens) % 2 == 0 { PixelType::U8x2 } else { PixelType::U8x4 }, idx / lens / 2 == 1)),
        |c| json!({"row_length": c.0, "pixel_type": pt_name(c.1), "op": if c.2 {"divide"} else {"multiply"}, "pairs": "all 65536, shifted through every lane"}),
        |&(len, pt, divide), stats, viols| with_alpha_px!(pt, P => {
            stats.nontrivial(&json!([len, pt_name(pt), divide]));
            let nc = P::NC;
            for shift in 0..len {
                let npx = 65536 + shift as usize;
                let h = (npx + len as usize - 1) / len as usize;
                let mut src = vec![P::default(); h * len as usize];
                {
                    let comps = P::components_mut(&mut src);
                    for p in 0..65536usize {
                        let i = p + shift as usize;
                        let (c, a) = ((p >> 8) as u64, (p & 255) as u64);
                        for ch in 0..nc - 1 {
                            // other colour channels: rotations of the same exhaustive sequence
                            comps[i * nc + ch] = <<P as Px>::C as Comp>::from_bits((c + 85 * ch as u64) & 255);
                        }
                        comps[i * nc + nc - 1] = <<P as Px>::C as Comp>::from_bits(a);
                    }
                }
                if viols.is_empty() {
                    let exts: &[Ext] = if shift % 4 == 0 || len <= 8 { &ALL_EXT } else { &[Ext::Sse4, Ext::Avx2] };
                    check_all::<P>(&src, len, h as u32, divide, "exhaustive", stats, viols, exts, if shift == 0 { &ENTRIES } else { &ENTRIES[..2] });
                }
                stats.seen("lanes_mod_32", shift % 32);
            }
        }),
    );
}

fn u16_special() -> Vec<u64> {
    vec![0, 1, 2, 3, 254, 255, 256, 257, 32767, 32768, 32769, 65534, 65535]
}

fn fill_u16<P: Px>(pairs: impl Iterator<Item = (u64, u64)>, lead: usize) -> Vec<P> {
    let nc = P::NC;
    let mut v: Vec<P> = vec![P::default(); lead];
    for (c, a) in pairs {
        let comps: Vec<<P as Px>::C> = (0..nc).map(|ch| <<P as Px>::C as Comp>::from_bits(if ch == nc - 1 { a } else if ch == 0 { c } else if ch == 1 { 65535 - c } else { c.rotate_left(5) & 0xffff })).collect();
        v.push(P::from_comps(&comps));
    }
    v
}

fn run_u16(ctx: &mut Ctx) {
    let sp = u16_special();
    let nsp = sp.len() as u64;
    let random = ctx.n;
    // cases: all c for special a; all a for special c; random blocks of 65536 pairs
    let total = 2 * 2 * (2 * nsp + random);
    let seed = ctx.seed;
    ctx.drive(
        total,
        |_, idx| Some((if idx % 2 == 0 { PixelType::U16x2 } else { PixelType::U16x4 }, (idx / 2) % 2 == 1, idx / 4)),
        |c| json!({"pixel_type": pt_name(c.0), "op": if c.1 {"divide"} else {"multiply"}, "block": c.2}),
        |&(pt, divide, k), stats, viols| with_alpha_px!(pt, P => {
            stats.nontrivial(&json!([pt_name(pt), divide, k]));
            let lead = (k % 8) as usize;
            let src: Vec<P> = if k < nsp {
                let a = sp[k as usize];
                fill_u16::<P>((0..65536u64).map(|c| (c, a)), lead)
            } else if k < 2 * nsp {
                let c = sp[(k - nsp) as usize];
                fill_u16::<P>((0..65536u64).map(|a| (c, a)), lead)
            } else {
                let mut rng = Rng::for_case(seed, "C06u16", k);
                let mode = rng.below(4);
                fill_u16::<P>((0..65536u64).map(|_| {
                    let a = if mode == 0 { rng.below(300) } else { rng.below(65536) };
                    let c = match mode { 1 => rng.below(a + 1), 2 => a + rng.below(65536 - a), _ => rng.below(65536) };
                    (c, a)
                }), lead)
            };
            let w = src.len() as u32;
            check_all::<P>(&src, w, 1, divide, "16-bit block", stats, viols, &ALL_EXT, if k % 16 == 0 { &ENTRIES } else { &ENTRIES[..2] });
        }),
    );
}

/// all 2^32 pairs: one case = 256 alphas x all colours
fn run_u16_full(ctx: &mut Ctx) {
    let total = 2 * 2 * 256;
    ctx.stats.notes.push("exhaustive: all 2^32 (colour, alpha) pairs x U16x2/U16x4 x multiply/divide x 3 back-ends".into());
    ctx.drive(
        total,
        |_, idx| Some((if idx % 2 == 0 { PixelType::U16x2 } else { PixelType::U16x4 }, (idx / 2) % 2 == 1, idx / 4)),
        |c| json!({"pixel_type": pt_name(c.0), "op": if c.1 {"divide"} else {"multiply"}, "alphas": [c.2 * 256, c.2 * 256 + 255], "colours": "all 65536"}),
        |&(pt, divide, blk), stats, viols| with_alpha_px!(pt, P => {
            stats.nontrivial(&json!([pt_name(pt), divide, blk]));
            for a in blk * 256..blk * 256 + 256 {
                if !viols.is_empty() {
                    break;
                }
                let src = fill_u16::<P>((0..65536u64).map(|c| (c, a)), (a % 8) as usize);
                let w = src.len() as u32;
                check_all::<P>(&src, w, 1, divide, "all pairs", stats, viols, &ALL_EXT, &ENTRIES[..1]);
            }
        }),
    );
}

fn run_f32(ctx: &mut Ctx) {
    let total = ctx.n;
    let seed = ctx.seed;
    ctx.drive(
        total,
        |_, idx| Some((if idx % 2 == 0 { PixelType::F32x2 } else { PixelType::F32x4 }, (idx / 2) % 2 == 1, idx)),
        |c| json!({"pixel_type": pt_name(c.0), "op": if c.1 {"divide"} else {"multiply"}, "block": c.2}),
        |&(pt, divide, k), stats, viols| with_alpha_px!(pt, P => {
            stats.nontrivial(&json!([pt_name(pt), divide, k]));
            let mut rng = Rng::for_case(seed, "C06f32", k);
            let nc = P::NC;
            let n = 1 + rng.below(70) as usize + if k % 5 == 0 { 4096 } else { 0 };
            let mut src = vec![P::default(); n];
            {
                let comps = P::components_mut(&mut src);
                let val = |rng: &mut Rng, alpha: bool| -> f32 {
                    match rng.below(12) {
                        0 => 0.0,
                        1 => if alpha { 0.0 } else { -0.0 },
                        2 => 1.0,
                        3 => f32::MIN_POSITIVE,
                        4 => f32::from_bits(rng.below(0x0080_0000) as u32), // denormal
                        5 => 3.0e38,
                        6 => 1.0e-30,
                        // negative alpha is reachable after an overshooting filter: c/a and c*a all the same
                        7 => (rng.unit() * 2.0 - if alpha && rng.chance(1, 2) { 0.0 } else { 1.0 }) as f32,
                        8 => -(rng.unit() as f32) * 1000.0 * if alpha { -1.0 } else { 1.0 },
                        _ => rng.unit() as f32,
                    }
                };
                for i in 0..n {
                    for ch in 0..nc {
                        comps[i * nc + ch] = <<P as Px>::C as Comp>::from_f64(val(&mut rng, ch == nc - 1) as f64);
                    }
                }
            }
            check_all::<P>(&src, n as u32, 1, divide, "float row", stats, viols, &ALL_EXT, &ENTRIES);
        }),
    );
}

fn run_unsupported(ctx: &mut Ctx) {
    let pts: Vec<PixelType> = ALL_PT.iter().copied().filter(|p| !pt_has_alpha(*p)).collect();
    let total = pts.len() as u64 * 3;
    ctx.drive(
        total,
        |_, idx| Some((pts[(idx % pts.len() as u64) as usize], ALL_EXT[(idx / pts.len() as u64) as usize])),
        |c| json!({"pixel_type": pt_name(c.0), "backend": c.1.name()}),
        |&(pt, ext), stats, viols| {
            stats.nontrivial(&json!([pt_name(pt), ext.name()]));
            let mut md = MulDiv::new();
            unsafe { md.set_cpu_extensions(ext.to_fr()) };
            let src = Image::new(3, 2, pt);
            let mut dst = Image::new(3, 2, pt);
            let before = dst.buffer().to_vec();
            let r = [
                md.multiply_alpha(&src, &mut dst).is_err(),
                md.divide_alpha(&src, &mut dst).is_err(),
                md.multiply_alpha_inplace(&mut dst).is_err(),
                md.divide_alpha_inplace(&mut dst).is_err(),
            ];
            stats.count("unsupported_calls", 4);
            if r != [true; 4] || dst.buffer() != &before[..] {
                viols.push(Viol::new("unsupported_type_not_rejected", format!("{} {}: errors {:?}", pt_name(pt), ext.name(), r)).sig(json!({"pt": pt_name(pt)})));
            }
            if md.is_supported(pt) {
                viols.push(Viol::new("unsupported_type_not_rejected", format!("is_supported({}) is true", pt_name(pt))));
            }
        },
    );
}

/// short random rows through every entry point and back-end: cheap enough for Miri
/// rows of every length 1..=70 whose alphas come in runs and blocks (wholly transparent / wholly opaque / half-and-half groups
/// of 2..16 pixels at every phase): what a kernel that tests a whole vector of alphas at once can get wrong
fn run_patterns(ctx: &mut Ctx) {
    let total = ctx.n;
    let seed = ctx.seed;
    let pool = ctx.pool;
    ctx.drive(
        total,
        |_, idx| Some((ALPHA_PT[(idx % 6) as usize], (idx / 6) % 2 == 1, idx)),
        |c| json!({"pixel_type": pt_name(c.0), "op": if c.1 {"divide"} else {"multiply"}, "row": c.2, "alpha": "runs and blocks"}),
        |&(pt, divide, k), stats, viols| with_alpha_px!(pt, P => {
            stats.nontrivial(&json!([pt_name(pt), divide, k]));
            let mut rng = Rng::for_case(seed, "C06pat", k);
            let w = 1 + ((k / 12) % 70) as u32;
            // inside a thread pool the image has to be tall enough to be split into bands
            let h = if pool > 0 { 30 + rng.below(70) as u32 } else { 1 + rng.below(3) as u32 };
            let content = match P::kind() {
                CompKind::F32 => firv::spec::Content { kind: 0, seed: rng.next(), a: 0.0, b: 1.0 },
                _ => firv::spec::Content { kind: 0, seed: rng.next(), a: 0.0, b: 0.0 },
            };
            let ap = firv::spec::AlphaPat { kind: *rng.pick(&[12u8, 12, 12, 11, 11, 9, 10, 2, 6, 1]), seed: rng.next() };
            let src = firv::content::make_pixels::<P>(w, h, &content, Some(&ap));
            stats.seen("pattern_row_lengths", w);
            stats.count("pattern_rows", h as u64);
            check_all::<P>(&src, w, h, divide, "alpha runs/blocks", stats, viols, &ALL_EXT, &ENTRIES);
        }),
    );
}

fn run_small(ctx: &mut Ctx) {
    let total = ctx.n;
    let seed = ctx.seed;
    ctx.drive(
        total,
        |_, idx| Some((ALPHA_PT[(idx % 6) as usize], (idx / 6) % 2 == 1, idx)),
        |c| json!({"pixel_type": pt_name(c.0), "op": if c.1 {"divide"} else {"multiply"}, "row": c.2}),
        |&(pt, divide, k), stats, viols| with_alpha_px!(pt, P => {
            stats.nontrivial(&json!([pt_name(pt), divide, k]));
            let mut rng = Rng::for_case(seed, "C06small", k);
            let nc = P::NC;
            let w = 1 + rng.below(19) as usize;
            let h = 1 + rng.below(2) as usize;
            let mut src = vec![P::default(); w * h];
            {
                let comps = P::components_mut(&mut src);
                for i in 0..w * h * nc {
                    comps[i] = match P::kind() {
                        CompKind::F32 => <<P as Px>::C as Comp>::from_f64(if rng.chance(1, 6) { 0.0 } else { rng.unit() }),
                        _ => <<P as Px>::C as Comp>::from_bits(if rng.chance(1, 6) { 0 } else { rng.next() }),
                    };
                }
            }
            check_all::<P>(&src, w as u32, h as u32, divide, "short row", stats, viols, &ALL_EXT, &ENTRIES);
        }),
    );
}
