//! C17: depth conversion is monotone, keeps endpoints, lossless when widening.
use firv::fr;
use firv::px::*;
use firv::rng::Rng;
use firv::run::*;
use firv::serde_json::json;
use fr::images::*;
use fr::PixelType;

fn kind_pt(k: CompKind, nc: usize) -> PixelType {
    match (k, nc) {
        (CompKind::U8, 1) => PixelType::U8,
        (CompKind::U8, 2) => PixelType::U8x2,
        (CompKind::U8, 3) => PixelType::U8x3,
        (CompKind::U8, _) => PixelType::U8x4,
        (CompKind::U16, 1) => PixelType::U16,
        (CompKind::U16, 2) => PixelType::U16x2,
        (CompKind::U16, 3) => PixelType::U16x3,
        (CompKind::U16, _) => PixelType::U16x4,
        (CompKind::I32, _) => PixelType::I32,
        (CompKind::F32, 1) => PixelType::F32,
        (CompKind::F32, 2) => PixelType::F32x2,
        (CompKind::F32, 3) => PixelType::F32x3,
        (CompKind::F32, _) => PixelType::F32x4,
    }
}

/// component values as f64 (all four kinds are exactly representable)
fn convert(src_kind: CompKind, dst_kind: CompKind, nc: usize, vals: &[f64]) -> Result<Vec<f64>, String> {
    convert_w(src_kind, dst_kind, nc, vals, 0)
}

/// The values laid out row-major in an image `width` pixels wide (0 = one single row); unused pixels of the last row are zero.
fn convert_w(src_kind: CompKind, dst_kind: CompKind, nc: usize, vals: &[f64], width: usize) -> Result<Vec<f64>, String> {
    let n = vals.len();
    let npx = (n + nc - 1) / nc;
    let (iw, ih) = if width == 0 { (npx, 1) } else { (width, (npx + width - 1) / width) };
    let mut src = Image::new(iw as u32, ih as u32, kind_pt(src_kind, nc));
    {
        let b = src.buffer_mut();
        for (i, &v) in vals.iter().enumerate() {
            match src_kind {
                CompKind::U8 => b[i] = v as u8,
                CompKind::U16 => b[i * 2..i * 2 + 2].copy_from_slice(&(v as u16).to_ne_bytes()),
                CompKind::I32 => b[i * 4..i * 4 + 4].copy_from_slice(&(v as i32).to_ne_bytes()),
                CompKind::F32 => b[i * 4..i * 4 + 4].copy_from_slice(&(v as f32).to_ne_bytes()),
            }
        }
    }
    let mut dst = Image::new(iw as u32, ih as u32, kind_pt(dst_kind, nc));
    // narrow (non-square) images alternate between an owned Image and a borrowed ImageRef over the same bytes as the source
    let r = if width != 0 && width % 2 == 1 {
        // Image::new over-aligns its buffer (checked by its constructor), so the bytes are aligned for ImageRef as well
        match ImageRef::new(iw as u32, ih as u32, src.buffer(), kind_pt(src_kind, nc)) {
            Ok(sref) => fr::change_type_of_pixel_components(&sref, &mut dst),
            Err(e) => return Err(format!("ImageRef::new over the buffer of an Image: {:?}", e)),
        }
    } else {
        fr::change_type_of_pixel_components(&src, &mut dst)
    };
    r.map_err(|e| format!("{:?}", e))?;
    let b = dst.buffer();
    Ok((0..n)
        .map(|i| match dst_kind {
            CompKind::U8 => b[i] as f64,
            CompKind::U16 => u16::from_ne_bytes([b[i * 2], b[i * 2 + 1]]) as f64,
            CompKind::I32 => i32::from_ne_bytes([b[i * 4], b[i * 4 + 1], b[i * 4 + 2], b[i * 4 + 3]]) as f64,
            CompKind::F32 => f32::from_ne_bytes([b[i * 4], b[i * 4 + 1], b[i * 4 + 2], b[i * 4 + 3]]) as f64,
        })
        .collect())
}

/// nominal range of `k` when converted against `other`
fn nominal(k: CompKind, other: CompKind) -> (f64, f64) {
    match k {
        CompKind::U8 => (0.0, 255.0),
        CompKind::U16 => (0.0, 65535.0),
        CompKind::F32 => if other == CompKind::I32 { (-1.0, 1.0) } else { (0.0, 1.0) },
        CompKind::I32 => if other == CompKind::F32 { (i32::MIN as f64, i32::MAX as f64) } else { (0.0, i32::MAX as f64) },
    }
}

const KINDS: [CompKind; 4] = [CompKind::U8, CompKind::U16, CompKind::I32, CompKind::F32];

pub fn supported_pairs() -> Vec<(CompKind, CompKind, usize)> {
    let mut v = Vec::new();
    for nc in 1..=4usize {
        for s in KINDS {
            for d in KINDS {
                if nc > 1 && (s == CompKind::I32 || d == CompKind::I32) {
                    continue;
                }
                v.push((s, d, nc));
            }
        }
    }
    v
}

pub fn run(ctx: &mut Ctx) {
    if ctx.sub == "errors" {
        return run_errors(ctx);
    }
    let pairs = supported_pairs();
    let blocks = ctx.n.max(1);
    let total = pairs.len() as u64 * blocks;
    let seed = ctx.seed;
    ctx.stats.notes.push(format!("{} supported (source, destination, component count) pairs; integer sources exhaustively", pairs.len()));
    ctx.drive(
        total,
        |_, idx| Some((pairs[(idx % pairs.len() as u64) as usize], idx / pairs.len() as u64)),
        |c| json!({"pair": format!("{}->{}", c.0 .0.name(), c.0 .1.name()), "components": c.0 .2, "block": c.1}),
        |&((s, d, nc), blk), stats, viols| {
            stats.nontrivial(&json!([s.name(), d.name(), nc, blk]));
            let pair = format!("{}->{}", s.name().to_uppercase(), d.name().to_uppercase());
            let mut rng = Rng::for_case(seed, "C17", blk * 1000 + nc as u64);
            // sorted inputs
            let mut vals: Vec<f64> = match s {
                CompKind::U8 => (0..256).map(|v| v as f64).collect(),
                CompKind::U16 => (0..65536).map(|v| v as f64).collect(),
                CompKind::I32 => {
                    let mut v: Vec<f64> = vec![i32::MIN as f64, (i32::MIN + 1) as f64, -1_000_000.0, -2.0, -1.0, 0.0, 1.0, 2.0, 255.0, 256.0, 65535.0, 65536.0, (1 << 22) as f64, (1 << 23) as f64, (1 << 23) as f64 - 1.0, (1 << 30) as f64, (i32::MAX - 1) as f64, i32::MAX as f64];
                    for _ in 0..60_000 {
                        v.push(match rng.below(3) {
                            0 => (rng.next() as i32) as f64,
                            1 => ((rng.next() as i32) >> rng.below(31)) as f64,
                            _ => i32::MAX as f64 - rng.below(1 << 24) as f64,
                        });
                    }
                    v
                }
                CompKind::F32 => {
                    let mut v: Vec<f64> = vec![f64::NEG_INFINITY, -3.0e38, -1000.0, -1.0 - 1e-6, -1.0, -0.5, -1e-30, -0.0, 0.0, 1e-45, 1e-30, 0.001, 0.5, 1.0 - 6e-8, 1.0, 1.0 + 1.2e-7, 2.0, 1000.0, 3.0e38, f64::INFINITY];
                    for _ in 0..60_000 {
                        v.push(match rng.below(4) {
                            0 => rng.unit(),
                            1 => rng.unit() * 2.0 - 1.0,
                            2 => (rng.unit() * 4.0 - 2.0) * 10f64.powi(rng.below(6) as i32 - 3),
                            _ => f32::from_bits(rng.next() as u32) as f64,
                        } as f32 as f64);
                    }
                    v.retain(|x| !x.is_nan());
                    v.iter().map(|&x| x as f32 as f64).collect()
                }
            };
            vals.sort_by(|a, b| a.partial_cmp(b).unwrap());
            let out = match convert(s, d, nc, &vals) {
                Ok(o) => o,
                Err(e) => {
                    viols.push(Viol::new("unexpected_error", format!("{} x{}: {}", pair, nc, e)));
                    return;
                }
            };
            stats.count("values_converted", vals.len() as u64);
            // the conversion is per component: the same values in images 1..=9 pixels wide (rows shorter than any block a
            // vectorised loop might use) must convert to the same results
            {
                let m = vals.len().min(2048);
                let w = 1 + (blk as usize + nc) % 9;
                for w in [w, 1 + (w + 3) % 9] {
                    match convert_w(s, d, nc, &vals[..m], w) {
                        Ok(o2) => {
                            stats.seen("row_widths", w);
                            stats.count("values_converted_in_narrow_images", m as u64);
                            if let Some(i) = (0..m).find(|&i| o2[i].to_bits() != out[i].to_bits() && !(o2[i].is_nan() && out[i].is_nan())) {
                                viols.push(Viol::new("depends_on_image_shape", format!("{} x{}: value {:e} (component {} of the image) converts to {:e} in one row and to {:e} in an image {} pixels wide", pair, nc, vals[i], i, out[i], o2[i], w)).sig(json!({"pair": pair})));
                                break;
                            }
                        }
                        Err(e) => viols.push(Viol::new("unexpected_error", format!("{} x{} width {}: {}", pair, nc, w, e))),
                    }
                }
                // ... and through windows: the source a CroppedImageMut (read side of a mutable view) or a CroppedImage at an
                // off-diagonal position of a bigger image, the destination a CroppedImageMut inside its own parent
                {
                    use firv::containers::{image_with_window, window_of_image};
                    let m = m.min(512);
                    let npx = (m + nc - 1) / nc;
                    let iw = w.max(2);
                    let ih = (npx + iw - 1) / iw;
                    let plain = convert_w(s, d, nc, &vals[..m], iw);
                    let (spt, dpt) = (kind_pt(s, nc), kind_pt(d, nc));
                    let mut sbytes = vec![0u8; iw * ih * spt.size()];
                    for (i, &v) in vals[..m].iter().enumerate() {
                        match s {
                            CompKind::U8 => sbytes[i] = v as u8,
                            CompKind::U16 => sbytes[i * 2..i * 2 + 2].copy_from_slice(&(v as u16).to_ne_bytes()),
                            CompKind::I32 => sbytes[i * 4..i * 4 + 4].copy_from_slice(&(v as i32).to_ne_bytes()),
                            CompKind::F32 => sbytes[i * 4..i * 4 + 4].copy_from_slice(&(v as f32).to_ne_bytes()),
                        }
                    }
                    let (iw32, ih32) = (iw as u32, ih as u32);
                    let mut sparent = image_with_window(spt, &sbytes, iw32, ih32, 3, 1, iw32 + 4, ih32 + 3, 0x5a);
                    let mut dparent = image_with_window(dpt, &vec![0u8; iw * ih * dpt.size()], iw32, ih32, 1, 2, iw32 + 2, ih32 + 5, 0xa5);
                    let res = {
                        let mut dwin = CroppedImageMut::new(&mut dparent, 1, 2, iw32, ih32).unwrap();
                        if blk % 2 == 0 {
                            let swin = CroppedImageMut::new(&mut sparent, 3, 1, iw32, ih32).unwrap();
                            fr::change_type_of_pixel_components(&swin, &mut dwin)
                        } else {
                            let swin = CroppedImage::new(&sparent, 3, 1, iw32, ih32).unwrap();
                            fr::change_type_of_pixel_components(&swin, &mut dwin)
                        }
                    };
                    stats.count("conversions_through_windows", 1);
                    match (res, plain) {
                        (Ok(()), Ok(plain)) => {
                            let (wb, clean) = window_of_image(&dparent, iw32, ih32, 1, 2, 0xa5);
                            let got: Vec<f64> = (0..m)
                                .map(|i| match d {
                                    CompKind::U8 => wb[i] as f64,
                                    CompKind::U16 => u16::from_ne_bytes([wb[i * 2], wb[i * 2 + 1]]) as f64,
                                    CompKind::I32 => i32::from_ne_bytes([wb[i * 4], wb[i * 4 + 1], wb[i * 4 + 2], wb[i * 4 + 3]]) as f64,
                                    CompKind::F32 => f32::from_ne_bytes([wb[i * 4], wb[i * 4 + 1], wb[i * 4 + 2], wb[i * 4 + 3]]) as f64,
                                })
                                .collect();
                            if let Some(i) = (0..m).find(|&i| got[i].to_bits() != plain[i].to_bits() && !(got[i].is_nan() && plain[i].is_nan())) {
                                viols.push(Viol::new("depends_on_image_shape", format!("{} x{}: value {:e} converts to {:e} in a plain image and to {:e} through cropped windows (source {})", pair, nc, vals[i], plain[i], got[i], if blk % 2 == 0 { "CroppedImageMut" } else { "CroppedImage" })).sig(json!({"pair": pair})));
                            } else if !clean {
                                viols.push(Viol::new("depends_on_image_shape", format!("{} x{}: the conversion into a window changed the parent outside the window", pair, nc)).sig(json!({"pair": pair})));
                            }
                        }
                        (a, b) => {
                            if a.is_ok() != b.is_ok() {
                                viols.push(Viol::new("unexpected_error", format!("{} x{} through windows: {:?} vs plain {:?}", pair, nc, a, b.map(|_| ()))));
                            }
                        }
                    }
                }
            }
            // monotone non-decreasing
            for i in 1..vals.len() {
                if out[i] < out[i - 1] {
                    viols.push(Viol::new("not_monotone", format!("{} x{}: {:e} -> {:e} but {:e} -> {:e}", pair, nc, vals[i - 1], out[i - 1], vals[i], out[i])).sig(json!({"pair": pair})));
                    return;
                }
            }
            // endpoints of the nominal ranges; out-of-range floats saturate
            let (slo, shi) = nominal(s, d);
            let (dlo, dhi) = nominal(d, s);
            let ends = convert(s, d, nc, &[slo, shi]).unwrap();
            let as_f32 = |x: f64| x as f32 as f64;
            let (want_lo, want_hi) = if d == CompKind::F32 { (as_f32(dlo), as_f32(dhi)) } else { (dlo, dhi) };
            for (inp, got, want) in [(slo, ends[0], want_lo), (shi, ends[1], want_hi)] {
                if got != want {
                    viols.push(
                        Viol::new("endpoint_not_mapped", format!("{} x{}: {} -> {}, the destination range ends at {}", pair, nc, inp, got, want))
                            .sig(json!({"pair": pair, "value": format!("{}", inp), "got": format!("{}", got)})),
                    );
                }
            }
            if s == CompKind::F32 {
                let sat = convert(s, d, nc, &[f64::NEG_INFINITY, -3.0e38, slo - 0.5, shi + 0.5, 3.0e38, f64::INFINITY]).unwrap();
                let dmin = if d == CompKind::I32 { i32::MIN as f64 } else { dlo };
                let want = [dmin, dmin, dmin, want_hi, want_hi, want_hi];
                for k in 0..6 {
                    if d != CompKind::F32 && sat[k] != want[k] {
                        viols.push(Viol::new("float_not_saturated", format!("{} x{}: out-of-range input #{} -> {}, expected {}", pair, nc, k, sat[k], want[k])).sig(json!({"pair": pair})));
                        break;
                    }
                }
                let nan = convert(s, d, nc, &[f64::NAN]);
                if nan.is_err() {
                    viols.push(Viol::new("unexpected_error", format!("{}: NaN input rejected", pair)));
                }
            }
            // widening then narrowing returns the original value
            // wider = more bits for the same nominal range: u8 -> u16/i32/f32, u16 -> i32/f32 (and the identity)
            let widening = s == d || matches!((s, d), (CompKind::U8, _) | (CompKind::U16, CompKind::I32) | (CompKind::U16, CompKind::F32));
            if widening {
                let sample: Vec<f64> = if matches!(s, CompKind::U8 | CompKind::U16) { vals.clone() } else { vals.iter().copied().filter(|v| v.is_finite() && *v >= slo && *v <= shi).step_by(7).collect() };
                if let (true, Ok(w)) = (!sample.is_empty(), convert(s, d, nc, &sample)) {
                    if let Ok(back) = convert(d, s, nc, &w) {
                        stats.count("round_trips", sample.len() as u64);
                        if let Some(i) = (0..sample.len()).find(|&i| back[i] != sample[i] && !(s == CompKind::F32 && back[i] == sample[i])) {
                            viols.push(Viol::new("widening_round_trip_lossy", format!("{} x{}: {} -> {} -> {}", pair, nc, sample[i], w[i], back[i])).sig(json!({"pair": pair})));
                        }
                    }
                }
            }
        },
    );
}

fn run_errors(ctx: &mut Ctx) {
    let total = 13 * 13;
    ctx.drive(
        total,
        |_, idx| Some((ALL_PT[(idx % 13) as usize], ALL_PT[(idx / 13) as usize])),
        |c| json!({"src": pt_name(c.0), "dst": pt_name(c.1)}),
        |&(s, d), stats, viols| {
            stats.nontrivial(&json!([pt_name(s), pt_name(d)]));
            let same_count = pt_nc(s) == pt_nc(d);
            for (sw, sh, dw, dh) in [(3u32, 2u32, 3u32, 2u32), (3, 2, 2, 3), (3, 2, 3, 1), (0, 3, 3, 3), (3, 3, 3, 0), (0, 0, 0, 0), (0, 3, 0, 3), (0, 3, 3, 0), (0, 2, 0, 3)] {
                let src = Image::new(sw, sh, s);
                let mut dst = Image::new(dw, dh, d);
                for b in dst.buffer_mut().iter_mut() {
                    *b = 0x5A;
                }
                let before = dst.buffer().to_vec();
                let r = fr::change_type_of_pixel_components(&src, &mut dst);
                stats.count("error_path_calls", 1);
                let should_ok = same_count && (dw, dh) == (sw, sh);
                if r.is_ok() != should_ok {
                    viols.push(Viol::new("wrong_acceptance", format!("{} {}x{} -> {} {}x{}: {:?}", pt_name(s), sw, sh, pt_name(d), dw, dh, r)).sig(json!({"pair": "errors"})));
                }
                if r.is_err() && dst.buffer() != &before[..] {
                    viols.push(Viol::new("destination_touched_by_failed_call", format!("{} -> {} {}x{}", pt_name(s), pt_name(d), dw, dh)).sig(json!({"pair": "errors"})));
                }
            }
        },
    );
}
