//! C08: with the rayon feature the result is independent of thread count and schedule.
use firv::content::*;
use firv::exec::*;
use firv::fr;
use firv::gen::*;
use firv::px::*;
use firv::rng::{hash_bytes, Rng};
use firv::run::*;
use firv::serde_json::json;
use firv::spec::*;
use firv::{with_alpha_px, with_px};
use fr::images::*;
use fr::MulDiv;
use std::collections::HashMap;

pub use firv::pool::Pools;

pub struct TCase {
    c: RCase,
    ext: Ext,
    /// 0 resize, 1 multiply, 2 divide, 3 multiply in place, 4 divide in place
    op: u8,
    pools: Vec<usize>,
    jitter: u64,
}

fn describe(t: &TCase) -> firv::serde_json::Value {
    let mut v = t.c.to_json();
    v["backend"] = json!(t.ext.name());
    v["op"] = json!(["resize", "multiply_alpha", "divide_alpha", "multiply_alpha_inplace", "divide_alpha_inplace"][t.op as usize]);
    v["thread_pools"] = json!(t.pools);
    v["jitter_seed"] = json!(t.jitter.to_string());
    v
}

fn run_op<P: Px>(t: &TCase, src: &[P]) -> Result<Vec<P>, String> {
    let c = &t.c;
    if t.op == 0 {
        return resize_vec::<P>(src, c.sw, c.sh, c.dw, c.dh, &c.options(), t.ext).map_err(|e| format!("{:?}", e));
    }
    let mut md = MulDiv::new();
    unsafe { md.set_cpu_extensions(t.ext.to_fr()) };
    let divide = t.op == 2 || t.op == 4;
    if t.op >= 3 {
        let mut buf = src.to_vec();
        {
            let mut d = TypedImage::<P>::from_pixels_slice(c.sw, c.sh, &mut buf).unwrap();
            (if divide { md.divide_alpha_inplace_typed(&mut d) } else { md.multiply_alpha_inplace_typed(&mut d) }).map_err(|e| format!("{:?}", e))?;
        }
        Ok(buf)
    } else {
        let s = TypedImageRef::<P>::new(c.sw, c.sh, src).unwrap();
        let mut buf = sentinel::<P>(src.len());
        {
            let mut d = TypedImage::<P>::from_pixels_slice(c.sw, c.sh, &mut buf).unwrap();
            (if divide { md.divide_alpha_typed(&s, &mut d) } else { md.multiply_alpha_typed(&s, &mut d) }).map_err(|e| format!("{:?}", e))?;
        }
        Ok(buf)
    }
}

/// signature of the observed schedule: the order of band begin/end events with threads renamed by first appearance
fn schedule_signature(ev: &[Event]) -> (u64, usize, Vec<(bool, u32)>) {
    let mut names: HashMap<u64, u8> = HashMap::new();
    let mut s = Vec::new();
    let mut bands = 0;
    let mut splits = Vec::new();
    for e in ev {
        match e {
            Event::BandBegin { thread, kind, .. } => {
                let n = names.len() as u8;
                let id = *names.entry(*thread).or_insert(n);
                s.extend_from_slice(&[b'B', *kind, id]);
                bands += 1;
            }
            Event::BandEnd { thread, kind } => {
                let n = names.len() as u8;
                let id = *names.entry(*thread).or_insert(n);
                s.extend_from_slice(&[b'E', *kind, id]);
            }
            Event::Split { vertical, parts, .. } => splits.push((*vertical, *parts)),
            _ => {}
        }
    }
    (hash_bytes(&s), bands, splits)
}

fn exec<P: Px>(t: &TCase, pools: &mut Pools, stats: &mut Stats, viols: &mut Vec<Viol>) {
    let c = &t.c;
    let src = make_pixels::<P>(c.sw, c.sh, &c.content, c.alpha.as_ref());
    fr::verif_hooks::set_jitter(0);
    let base = pools.get(1).install(|| run_op::<P>(t, &src));
    let mut multi = false;
    for &n in &t.pools {
        fr::verif_hooks::set_jitter(t.jitter);
        let (got, ev) = record(|| pools.get(n).install(|| run_op::<P>(t, &src)));
        fr::verif_hooks::set_jitter(0);
        if let Some(h) = hook_violation(&ev) {
            viols.push(Viol::new("hook_violation", h));
        }
        let (sig, bands, splits) = schedule_signature(&ev);
        stats.count("runs_in_pools", 1);
        stats.count("bands_executed", bands as u64);
        for (v, p) in splits {
            if p > 1 {
                multi = true;
                stats.count("multi_band_splits", 1);
                stats.seen("splits_axis_parts", format!("{}{}", if v { "v" } else { "h" }, p));
            }
        }
        if bands > 1 {
            stats.seen("schedules", sig);
        }
        stats.seen("pool_sizes", n);
        match (&base, &got) {
            (Ok(a), Ok(b)) => {
                if P::bits_of(a) != P::bits_of(b) {
                    let i = (0..a.len()).find(|&i| P::bits_of(&[a[i]]) != P::bits_of(&[b[i]])).unwrap();
                    viols.push(
                        Viol::new("depends_on_thread_count", format!("{} threads: pixel {} (x={}, y={}) = {:?}, single-threaded {:?}", n, i, i % c.dw.max(1) as usize, i / c.dw.max(1) as usize, b[i], a[i]))
                            .sig(json!({"pt": P::NAME, "op": t.op})),
                    );
                    return;
                }
            }
            (Err(a), Err(b)) if a == b => {}
            (a, b) => {
                viols.push(Viol::new("depends_on_thread_count", format!("{} threads: {:?} vs single-threaded {:?}", n, b.as_ref().map(|_| ()), a.as_ref().map(|_| ()))));
                return;
            }
        }
    }
    if multi {
        stats.nontrivial(&describe(t));
    }
}

fn gen_pools(rng: &mut Rng, extent: u32) -> Vec<usize> {
    let mut v = vec![*rng.pick(&[2usize, 3, 4]), rng.range(5, 32) as usize];
    if rng.chance(1, 3) {
        // more threads than rows/columns
        v.push((extent as usize + 1 + rng.below(8) as usize).min(64));
    }
    v
}

pub fn run(ctx: &mut Ctx) {
    match ctx.sub.as_str() {
        "strips" => return run_strips(ctx),
        "parts" => return run_parts(ctx),
        "big" => return run_big(ctx),
        "miri_h" | "miri_v" => return run_miri(ctx),
        _ => {}
    }
    let mut o = GenOpts::conv_all(&ALL_PT);
    o.alpha_mode = 2;
    o.nearest = true;
    o.max_side = 200;
    o.strip_max = 0;
    let total = ctx.n;
    let seed = ctx.seed;
    let mut pools = Pools::new();
    ctx.drive(
        total,
        |_, idx| {
            let mut rng = Rng::for_case(seed, "C08", idx);
            let mut c = random_case(&mut rng, &o);
            c.pt = ALL_PT[(idx % 13) as usize];
            c.content = gen_content(&mut rng, pt_kind(c.pt));
            c.alpha = if pt_has_alpha(c.pt) { Some(gen_alpha_pat(&mut rng)) } else { None };
            // destinations large enough to be split into bands
            c.dw = rng.range(40, 260) as u32;
            c.dh = rng.range(40, 260) as u32;
            c.sw = rng.range(20, 300) as u32;
            c.sh = rng.range(20, 300) as u32;
            if rng.chance(1, 5) {
                c.dh = c.sh; // horizontal pass only
            } else if rng.chance(1, 5) {
                c.dw = c.sw; // vertical pass only
            }
            c.crop = if rng.chance(1, 2) { gen_crop(&mut rng, c.sw, c.sh) } else { Crop::None };
            if let Alg::Conv(f) | Alg::Interp(f) | Alg::Super(f, _) = c.alg {
                // keep kernels short: the subject is banding, not filtering
                if matches!(f, Filt::Lanczos3 | Filt::Gaussian) && rng.chance(2, 3) {
                    c.alg = Alg::Conv(Filt::Bilinear);
                }
            }
            let op = if pt_has_alpha(c.pt) && rng.chance(1, 4) { rng.range(1, 4) as u8 } else { 0 };
            if op != 0 {
                c.sw = rng.range(40, 300) as u32;
                c.sh = rng.range(40, 300) as u32;
                c.dw = c.sw;
                c.dh = c.sh;
                c.crop = Crop::None;
            }
            let pools = gen_pools(&mut rng, c.dh.min(c.dw));
            Some(TCase { c, ext: *rng.pick(&ALL_EXT), op, pools, jitter: rng.next() | 1 })
        },
        describe,
        |t, stats, viols| {
            if t.op == 0 {
                with_px!(t.c.pt, P => exec::<P>(t, &mut pools, stats, viols))
            } else {
                with_alpha_px!(t.c.pt, P => exec::<P>(t, &mut pools, stats, viols))
            }
        },
    );
}

/// band arithmetic at scale: 1xN, Nx1, 2xN strips where the band-count arithmetic overflows 32 bits
fn run_strips(ctx: &mut Ctx) {
    const NS: [u32; 14] = [255, 256, 257, 4095, 4096, 4097, 65_535, 65_536, 65_537, 70_000, 92_681, 92_682, 131_072, 300_000];
    let total = (NS.len() * 6 * 4) as u64;
    let seed = ctx.seed;
    let mut pools = Pools::new();
    ctx.drive(
        total,
        |_, idx| {
            let mut rng = Rng::for_case(seed, "C08s", idx);
            let n = NS[(idx % NS.len() as u64) as usize];
            let shape = (idx / NS.len() as u64) % 6;
            let variant = idx / NS.len() as u64 / 6;
            let pt = *rng.pick(&[fr::PixelType::U8, fr::PixelType::U8x4, fr::PixelType::U16x2, fr::PixelType::F32, fr::PixelType::U8x2]);
            let small = rng.range(2, 9) as u32;
            // shape: which of source/destination is the long one, and along which axis
            let (sw, sh, dw, dh) = match shape {
                0 => (2, small, 1, n),       // tall destination (D8: 2x8 -> 1x65536)
                1 => (small, 2, n, 1),       // wide destination
                2 => (1, n, 1, small),       // tall source
                3 => (n, 1, small, 1),       // wide source
                4 => (2, n, 2, n / 2 + 1),   // both tall
                _ => (n, 2, n / 2 + 1, 2),   // both wide
            };
            let alg = match variant {
                0 => Alg::Conv(Filt::Bilinear),
                1 => Alg::Nearest,
                2 => Alg::Conv(Filt::Box),
                _ => Alg::Super(Filt::Bilinear, 2),
            };
            let op = if pt_has_alpha(pt) && variant == 3 && shape >= 4 { 1 + (idx % 4) as u8 } else { 0 };
            let c = RCase { pt, sw, sh, dw: if op != 0 { sw } else { dw }, dh: if op != 0 { sh } else { dh }, crop: Crop::None, alg, use_alpha: rng.chance(1, 2), content: Content { kind: 0, seed: rng.next(), a: 0.0, b: 1.0 }, alpha: if pt_has_alpha(pt) { Some(gen_alpha_pat(&mut rng)) } else { None } };
            Some(TCase { c, ext: *rng.pick(&ALL_EXT), op, pools: vec![2, 7, 32], jitter: 0 })
        },
        describe,
        |t, stats, viols| {
            stats.seen("strip_lengths", t.c.sw.max(t.c.sh).max(t.c.dw).max(t.c.dh));
            stats.count("strip_cases", 1);
            if t.op == 0 {
                with_px!(t.c.pt, P => exec::<P>(t, &mut pools, stats, viols))
            } else {
                with_alpha_px!(t.c.pt, P => exec::<P>(t, &mut pools, stats, viols))
            }
            stats.nontrivial(&describe(t));
        },
    );
}

/// large frames: destinations of 4..20 MB whose extents are not multiples of any band count (code that only goes
/// parallel above a size threshold, band offsets with a remainder)
fn run_big(ctx: &mut Ctx) {
    let total = ctx.n.max(1);
    let seed = ctx.seed;
    let mut pools = Pools::new();
    ctx.drive(
        total,
        |_, idx| {
            let mut rng = Rng::for_case(seed, "C08big", idx);
            let pt = [fr::PixelType::U8x4, fr::PixelType::U8, fr::PixelType::U16x3, fr::PixelType::F32x4, fr::PixelType::U8x2, fr::PixelType::I32, fr::PixelType::U16x2][(idx % 7) as usize];
            let px = match pt { fr::PixelType::U8 => 1u32, fr::PixelType::U8x2 => 2, fr::PixelType::U8x4 | fr::PixelType::I32 | fr::PixelType::U16x2 => 4, fr::PixelType::U16x3 => 6, _ => 16 };
            // destination of 4.2 .. 9 MB, prime-ish extents
            let target = (4_400_000 + rng.below(4_600_000)) / px as u64;
            let dw = *rng.pick(&[541u32, 1031, 1543, 2053, 2311, 769]);
            let dh = ((target / dw as u64) as u32) | 1;
            let (dw, dh) = if rng.chance(1, 2) { (dw, dh) } else { (dh, dw) };
            let alg = match (idx / 7) % 4 {
                0 => Alg::Nearest,
                1 => Alg::Conv(Filt::Bilinear),
                2 => Alg::Conv(Filt::Lanczos3),
                _ => Alg::Super(Filt::Box, 2),
            };
            // a source of a few hundred pixels per side (up-scaling keeps the cost in the destination), or down-scaling by ~1.5
            let (sw, sh) = if rng.chance(2, 3) { (rng.range(37, 400) as u32, rng.range(37, 400) as u32) } else { (dw + dw / 2 + 1, dh + dh / 2 + 3) };
            let crop = if rng.chance(1, 2) { Crop::None } else { Crop::Box([3.0, 5.0, sw as f64 - 7.25, sh as f64 - 9.5]) };
            let c = RCase { pt, sw, sh, dw, dh, crop, alg, use_alpha: rng.chance(1, 2), content: Content { kind: 0, seed: rng.next(), a: 0.0, b: 1.0 }, alpha: if pt_has_alpha(pt) { Some(gen_alpha_pat(&mut rng)) } else { None } };
            Some(TCase { c, ext: *rng.pick(&ALL_EXT), op: 0, pools: vec![2, 3, 7], jitter: 0 })
        },
        describe,
        |t, stats, viols| {
            stats.count("big_frame_cases", 1);
            stats.max("big_frame_dst_bytes", t.c.dw as f64 * t.c.dh as f64 * match t.c.pt { fr::PixelType::U8 => 1.0, fr::PixelType::U8x2 => 2.0, fr::PixelType::U16x3 => 6.0, fr::PixelType::F32x4 => 16.0, _ => 4.0 });
            with_px!(t.c.pt, P => exec::<P>(t, &mut pools, stats, viols));
            stats.nontrivial(&describe(t));
        },
    );
}

/// the band-count functions themselves over the whole u32 range
fn run_parts(ctx: &mut Ctx) {
    let blocks = (ctx.n / 10_000).max(1);
    let seed = ctx.seed;
    ctx.drive(
        blocks,
        |_, idx| Some(idx),
        |b| json!({"block_of_10000_size_pairs": b}),
        |&blk, stats, viols| {
            stats.nontrivial(&json!(blk));
            let mut rng = Rng::for_case(seed, "C08p", blk);
            let edge = |rng: &mut Rng| -> u32 {
                let k = rng.below(33) as u32;
                let p = if k >= 32 { u32::MAX } else { 1u32 << k };
                match rng.below(5) {
                    0 => p,
                    1 => p.wrapping_sub(1),
                    2 => p.wrapping_add(1),
                    3 => rng.next() as u32,
                    _ => rng.below(70_000) as u32,
                }
            };
            for _ in 0..10_000 {
                let (w, h) = (edge(&mut rng), edge(&mut rng));
                stats.count("size_pairs", 1);
                for (name, f, extent) in [("h", fr::verif_hooks::max_h_parts as fn(u32, u32) -> u32, h), ("v", fr::verif_hooks::max_v_parts as fn(u32, u32) -> u32, w)] {
                    let r = std::panic::catch_unwind(|| f(w, h));
                    match r {
                        Ok(p) => {
                            // any value is harmless (0 or 1 mean "do not split", a count the view cannot honour makes the
                            // split return None and the call falls back to one band): the property only forbids the panic
                            if w > 0 && h > 0 && p > extent {
                                stats.count("band_counts_beyond_extent", 1);
                            }
                            if w as u64 * h as u64 > u32::MAX as u64 {
                                stats.count("pairs_with_area_beyond_u32", 1);
                            }
                        }
                        Err(_) => {
                            let _ = take_panic_location();
                            if viols.len() < 3 {
                                viols.push(Viol::new("panic", format!("max_{}_parts({}, {}) panicked", name, w, h)).sig(json!({"fn": name})));
                            }
                        }
                    }
                }
            }
        },
    );
}

/// small multi-band scenarios for Miri: row bands (miri_h) and column bands (miri_v)
fn run_miri(ctx: &mut Ctx) {
    let vertical = ctx.sub == "miri_v";
    let total = ctx.n;
    let seed = ctx.seed;
    let mut pools = Pools::new();
    ctx.drive(
        total,
        |_, idx| {
            let mut rng = Rng::for_case(seed, "C08m", idx);
            let pt = *rng.pick(&[fr::PixelType::U8x4, fr::PixelType::U8, fr::PixelType::U16x2, fr::PixelType::F32]);
            // destination 40x40: area 1600 -> 4 bands
            let (sw, sh, dw, dh) = if vertical { (40, rng.range(18, 24) as u32, 40, 40) } else { (rng.range(18, 24) as u32, 40, 40, 40) };
            let c = RCase { pt, sw, sh, dw, dh, crop: Crop::None, alg: Alg::Conv(if rng.chance(1, 2) { Filt::Bilinear } else { Filt::Box }), use_alpha: false, content: Content { kind: 0, seed: rng.next(), a: 0.0, b: 1.0 }, alpha: None };
            Some(TCase { c, ext: *rng.pick(&ALL_EXT), op: 0, pools: vec![3], jitter: 0 })
        },
        describe,
        |t, stats, viols| {
            with_px!(t.c.pt, P => exec::<P>(t, &mut pools, stats, viols));
            stats.nontrivial(&describe(t));
        },
    );
}
