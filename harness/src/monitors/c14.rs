//! C14: splitting a view yields an exact, ordered, non-overlapping tiling.
use firv::fr;
use firv::run::*;
use firv::serde_json::{json, Value};
use fr::images::*;
use fr::pixels::I32;
use fr::{ImageView, ImageViewMut};
use firv::containers::{UserView, UserViewMut};
use std::num::NonZeroU32;

#[derive(Clone, Copy, Debug)]
pub struct SCase {
    kind: u8,
    w: u32,
    h: u32,
    /// margins of the parent (left, top, right, bottom) for cropped kinds; extra rows for kind 1
    m: [u32; 4],
}

const KINDS: [&str; 9] = ["TypedImage(owned)", "TypedImage(slice, oversized)", "TypedImageRef", "TypedCroppedImage", "TypedCroppedImage(nested)", "TypedCroppedImageMut", "TypedCroppedImageMut(nested)",
    // view types defined in the harness that implement only the required trait methods: every split is the trait's default implementation
    "UserView(trait defaults)", "UserViewMut(trait defaults)"];

fn tag(x: u32, y: u32) -> i32 {
    // identity tag in the low 20 bits (long views are 1 pixel thick, so x + y stays unique there)
    if x >= 1000 || y >= 1000 { ((x + y + 1) & 0xfffff) as i32 } else { (y * 1000 + x + 1) as i32 }
}

struct Parent {
    pw: u32,
    ph: u32,
    buf: Vec<I32>,
}

fn parent(pw: u32, ph: u32, extra: u32) -> Parent {
    let mut buf = Vec::with_capacity((pw * ph + extra) as usize);
    for y in 0..ph {
        for x in 0..pw {
            buf.push(I32::new(tag(x, y)));
        }
    }
    for i in 0..extra {
        buf.push(I32::new(-7 - i as i32));
    }
    Parent { pw, ph, buf }
}

struct Tally<'a> {
    stats: &'a mut Stats,
    viols: &'a mut Vec<Viol>,
    ctx: String,
}

impl<'a> Tally<'a> {
    fn fail(&mut self, kind: &str, msg: String) {
        if self.viols.len() < 3 {
            self.viols.push(Viol::new(kind, format!("{}: {}", self.ctx, msg)).sig(json!({"view": self.ctx.split(' ').next().unwrap_or("")})));
        }
    }
}

fn expect_some(extent: u32, start: u32, size: u32, parts: u32) -> bool {
    parts >= 1 && parts <= size && (start as u64 + size as u64) <= extent as u64
}

/// Check one view (whose pixel (0,0) is parent pixel (x0,y0)) for exposing exactly its rectangle.
fn check_rect<V: ImageView<Pixel = I32>>(v: &V, x0: u32, y0: u32, w: u32, h: u32, t: &mut Tally) -> bool {
    if v.width() != w || v.height() != h {
        t.fail("part_size", format!("part reports {}x{}, expected {}x{}", v.width(), v.height(), w, h));
        return false;
    }
    let mut rows = 0;
    for (y, row) in v.iter_rows(0).enumerate() {
        rows += 1;
        if row.len() != w as usize {
            t.fail("row_length", format!("row {} has {} pixels, view width {}", y, row.len(), w));
            return false;
        }
        for (x, p) in row.iter().enumerate() {
            // the low 20 bits carry the identity tag
            if (p.0 & 0xfffff) != tag(x0 + x as u32, y0 + y as u32) {
                t.fail("wrong_pixel", format!("pixel ({},{}) of a part at ({},{}) is {} instead of tag {}", x, y, x0, y0, p.0 & 0xfffff, tag(x0 + x as u32, y0 + y as u32)));
                return false;
            }
        }
        t.stats.count("pixels_read_through_parts", w as u64);
    }
    if rows != h as usize && w > 0 {
        t.fail("row_count", format!("{} rows yielded, view height {}", rows, h));
        return false;
    }
    true
}

/// The property fixes the number, the order and the balance of the parts, not which of them are the bigger ones:
/// every extent must be floor(size/parts) or ceil(size/parts) and they must add up to `size`.
fn balanced(sizes: &[u32], size: u32, parts: u32) -> Result<(), String> {
    let lo = size / parts;
    let hi = lo + (size % parts != 0) as u32;
    if let Some(s) = sizes.iter().find(|&&s| s != lo && s != hi) {
        return Err(format!("a part of extent {} in a split of {} into {} (extents must be {} or {})", s, size, parts, lo, hi));
    }
    let sum: u64 = sizes.iter().map(|&s| s as u64).sum();
    if sum != size as u64 {
        return Err(format!("extents of the parts add up to {} instead of {}", sum, size));
    }
    Ok(())
}

macro_rules! check_split_result {
    ($res:expr, $by_height:expr, $x0:expr, $y0:expr, $w:expr, $h:expr, $start:expr, $size:expr, $parts:expr, $t:expr, |$part:ident, $px:ident, $py:ident, $pw:ident, $ph:ident| $inner:expr) => {{
        let extent = if $by_height { $h } else { $w };
        let want = expect_some(extent, $start, $size, $parts);
        $t.stats.count("split_calls", 1);
        match $res {
            None => {
                $t.stats.count("split_none", 1);
                if want {
                    $t.fail("unexpected_none", format!("split(start={}, size={}, parts={}) of extent {} returned None", $start, $size, $parts, extent));
                }
            }
            Some(v) => {
                $t.stats.count("split_some", 1);
                if !want {
                    $t.fail("unexpected_some", format!("split(start={}, size={}, parts={}) of extent {} returned {} parts", $start, $size, $parts, extent, v.len()));
                } else if v.len() != $parts as usize {
                    $t.fail("part_count", format!("{} parts returned, {} requested", v.len(), $parts));
                } else {
                    let sizes: Vec<u32> = v.iter().map(|p| if $by_height { p.height() } else { p.width() }).collect();
                    if let Err(m) = balanced(&sizes, $size, $parts) {
                        $t.fail("part_size", m);
                    }
                    let mut off = $start;
                    for (i, $part) in v.iter().enumerate() {
                        let ($px, $py, $pw, $ph) = if $by_height { ($x0, $y0 + off, $w, sizes[i]) } else { ($x0 + off, $y0, sizes[i], $h) };
                        if !check_rect($part, $px, $py, $pw, $ph, $t) {
                            break;
                        }
                        $inner;
                        off += sizes[i];
                    }
                }
            }
        }
    }};
}

fn nz(v: u32) -> NonZeroU32 {
    NonZeroU32::new(v).unwrap()
}

/// second level: split a part again (both axes, a few triples), no further recursion
fn check_level2<V: ImageView<Pixel = I32>>(v: &V, x0: u32, y0: u32, w: u32, h: u32, t: &mut Tally) {
    for by_height in [true, false] {
        let extent = if by_height { h } else { w };
        for (start, size, parts) in [(0, extent.max(1), 1), (0, extent.max(1), extent.max(1)), (extent / 2, (extent - extent / 2).max(1), 2), (1, extent.max(1), 1), (0, extent.max(1), extent + 1)] {
            let res = if by_height { v.split_by_height(start, nz(size), nz(parts)).map(|v| v.into_iter().map(|p| Box::new(p) as Box<dyn Probe>).collect::<Vec<_>>()) } else { v.split_by_width(start, nz(size), nz(parts)).map(|v| v.into_iter().map(|p| Box::new(p) as Box<dyn Probe>).collect::<Vec<_>>()) };
            t.stats.count("split_of_split_calls", 1);
            let want = expect_some(extent, start, size, parts);
            match res {
                None => {
                    if want {
                        t.fail("unexpected_none", format!("split-of-split(start={}, size={}, parts={}) of extent {} returned None", start, size, parts, extent));
                    }
                }
                Some(ps) => {
                    if !want {
                        t.fail("unexpected_some", format!("split-of-split(start={}, size={}, parts={}) of extent {} returned Some", start, size, parts, extent));
                        continue;
                    }
                    let sizes: Vec<u32> = ps.iter().map(|p| p.extent(by_height)).collect();
                    if let Err(m) = balanced(&sizes, size, parts) {
                        t.fail("part_size", m);
                    }
                    let mut off = start;
                    for (i, p) in ps.iter().enumerate() {
                        let (px, py, pw, ph) = if by_height { (x0, y0 + off, w, sizes[i]) } else { (x0 + off, y0, sizes[i], h) };
                        if !p.probe(px, py, pw, ph, t) {
                            break;
                        }
                        off += sizes[i];
                    }
                }
            }
        }
    }
}

/// object-safe wrapper so that second-level parts of different concrete types can share code
trait Probe {
    fn probe(&self, x0: u32, y0: u32, w: u32, h: u32, t: &mut Tally) -> bool;
    fn extent(&self, by_height: bool) -> u32;
}
impl<V: ImageView<Pixel = I32>> Probe for V {
    fn extent(&self, by_height: bool) -> u32 {
        if by_height { self.height() } else { self.width() }
    }
    fn probe(&self, x0: u32, y0: u32, w: u32, h: u32, t: &mut Tally) -> bool {
        check_rect(self, x0, y0, w, h, t)
    }
}

/// All immutable splits of a view.
fn check_view<V: ImageView<Pixel = I32>>(v: &V, x0: u32, y0: u32, w: u32, h: u32, t: &mut Tally, deep: bool) {
    if !check_rect(v, x0, y0, w, h, t) {
        return;
    }
    for by_height in [true, false] {
        let extent = if by_height { h } else { w };
        for start in 0..=extent + 1 {
            for size in 1..=extent + 1 {
                for parts in 1..=size + 1 {
                    if by_height {
                        let res = v.split_by_height(start, nz(size), nz(parts));
                        check_split_result!(res, true, x0, y0, w, h, start, size, parts, t, |part, px, py, pw, ph| {
                            if deep && (start + size + parts) % 3 == 0 {
                                check_level2(part, px, py, pw, ph, t)
                            }
                        });
                    } else {
                        let res = v.split_by_width(start, nz(size), nz(parts));
                        check_split_result!(res, false, x0, y0, w, h, start, size, parts, t, |part, px, py, pw, ph| {
                            if deep && (start + size + parts) % 3 == 0 {
                                check_level2(part, px, py, pw, ph, t)
                            }
                        });
                    }
                }
            }
        }
        // values near u32::MAX must be rejected without overflow
        for (start, size, parts) in [(u32::MAX, 1, 1), (1, u32::MAX, 1), (u32::MAX, u32::MAX, 1), (0, u32::MAX, u32::MAX), (extent, 1, 1)] {
            let some = if by_height { v.split_by_height(start, nz(size), nz(parts)).is_some() } else { v.split_by_width(start, nz(size), nz(parts)).is_some() };
            t.stats.count("split_calls", 1);
            if some != expect_some(extent, start, size, parts) {
                t.fail("unexpected_some", format!("split(start={}, size={}, parts={}) of extent {} returned Some", start, size, parts, extent));
            }
        }
    }
}

/// All mutable splits of a view built by `make` over a fresh parent; after writing through the parts the
/// parent is read back: every band pixel incremented exactly once by the right part, nothing else changed.
fn check_view_mut(c: &SCase, t: &mut Tally, interleave: bool) {
    let (w, h) = (c.w, c.h);
    for by_height in [true, false] {
        let extent = if by_height { h } else { w };
        for start in 0..=extent + 1 {
            for size in 1..=extent + 1 {
                for parts in 1..=size + 1 {
                    let (mut par, x0, y0) = build_parent(c);
                    let want = expect_some(extent, start, size, parts);
                    let got = with_mut_view(c, &mut par, |v| write_parts_dyn(v, by_height, start, size, parts, interleave));
                    t.stats.count("mut_split_calls", 1);
                    match got {
                        None => {
                            if want {
                                t.fail("unexpected_none", format!("mutable split(start={}, size={}, parts={}) of extent {} returned None", start, size, parts, extent));
                            }
                        }
                        Some(sizes) => {
                            if !want {
                                t.fail("unexpected_some", format!("mutable split(start={}, size={}, parts={}) of extent {} returned Some", start, size, parts, extent));
                                continue;
                            }
                            if sizes.len() != parts as usize {
                                t.fail("part_count", format!("{} mutable parts returned, {} requested", sizes.len(), parts));
                                continue;
                            }
                            if let Err(m) = balanced(&sizes, size, parts) {
                                t.fail("part_size", m);
                                continue;
                            }
                            // exactly-once check through the parent
                            let owner = |off_in_band: u32| -> i32 {
                                let mut acc = 0;
                                for (i, s) in sizes.iter().enumerate() {
                                    acc += s;
                                    if off_in_band < acc {
                                        return i as i32 + 1;
                                    }
                                }
                                0
                            };
                            'scan: for py in 0..par.ph {
                                for px in 0..par.pw {
                                    let val = par.buf[(py * par.pw + px) as usize].0;
                                    let in_view = px >= x0 && px < x0 + w && py >= y0 && py < y0 + h;
                                    let along = if by_height { py.wrapping_sub(y0) } else { px.wrapping_sub(x0) };
                                    let expect = if in_view && along >= start && along < start + size { tag(px, py) + (owner(along - start) << 20) } else { tag(px, py) };
                                    t.stats.count("pixels_read_back_through_parent", 1);
                                    if val != expect {
                                        t.fail("not_exactly_once", format!("after writing through {} parts of mutable split(start={}, size={}) along {}: parent pixel ({},{}) = {:#x}, expected {:#x} (view at ({},{}) {}x{})", parts, start, size, if by_height { "height" } else { "width" }, px, py, val, expect, x0, y0, w, h));
                                        break 'scan;
                                    }
                                }
                            }
                            for (i, p) in par.buf[(par.pw * par.ph) as usize..].iter().enumerate() {
                                if p.0 != -7 - i as i32 {
                                    t.fail("not_exactly_once", format!("spare capacity pixel {} changed to {}", i, p.0));
                                    break;
                                }
                            }
                        }
                    }
                }
            }
        }
    }
}

/// Split mutably, then add (index+1)<<20 to every pixel each part exposes. Returns the number of parts.
fn write_parts<V: ImageViewMut<Pixel = I32>>(v: &mut V, by_height: bool, start: u32, size: u32, parts: u32, interleave: bool) -> Option<Vec<u32>> {
    fn write_all<T: ImageViewMut<Pixel = I32>>(mut ps: Vec<T>, interleave: bool, by_height: bool) -> Vec<u32> {
        let n: Vec<u32> = ps.iter().map(|p| if by_height { p.height() } else { p.width() }).collect();
        if interleave {
            // sibling parts used alternately, row by row
            let mut its: Vec<_> = ps.iter_mut().map(|p| p.iter_rows_mut(0)).collect();
            let mut live = true;
            while live {
                live = false;
                for (i, it) in its.iter_mut().enumerate() {
                    if let Some(row) = it.next() {
                        live = true;
                        for p in row.iter_mut() {
                            p.0 = p.0.wrapping_add((i as i32 + 1).wrapping_shl(20));
                        }
                    }
                }
            }
        } else {
            for (i, p) in ps.iter_mut().enumerate().rev() {
                for row in p.iter_rows_mut(0) {
                    for px in row.iter_mut() {
                        px.0 = px.0.wrapping_add((i as i32 + 1).wrapping_shl(20));
                    }
                }
            }
        }
        n
    }
    if by_height {
        v.split_by_height_mut(start, nz(size), nz(parts)).map(|ps| write_all(ps, interleave, true))
    } else {
        v.split_by_width_mut(start, nz(size), nz(parts)).map(|ps| write_all(ps, interleave, false))
    }
}

fn build_parent(c: &SCase) -> (Parent, u32, u32) {
    match c.kind {
        0 | 2 => (parent(c.w, c.h, 0), 0, 0),
        1 => (parent(c.w, c.h, c.m[3] * c.w + c.m[2]), 0, 0),
        _ => (parent(c.w + c.m[0] + c.m[2], c.h + c.m[1] + c.m[3], 0), c.m[0], c.m[1]),
    }
}

fn nested_outer(c: &SCase, par: &Parent) -> (u32, u32, u32, u32, u32, u32) {
    let (l, t, r, b) = (c.m[0], c.m[1], c.m[2], c.m[3]);
    let _ = par;
    // outer keeps half of each margin
    (l - l / 2, t - t / 2, c.w + l / 2 + r / 2, c.h + t / 2 + b / 2, l / 2, t / 2)
}

fn with_mut_view<R>(c: &SCase, par: &mut Parent, f: impl FnOnce(&mut dyn MutSplit) -> R) -> R {
    let (pw, ph) = (par.pw, par.ph);
    match c.kind {
        0 => {
            let mut img = TypedImage::<I32>::from_pixels(pw, ph, std::mem::take(&mut par.buf)).unwrap();
            let r = f(&mut img);
            par.buf = img.pixels().to_vec();
            r
        }
        1 => {
            let mut img = TypedImage::<I32>::from_pixels_slice(c.w, c.h, &mut par.buf).unwrap();
            f(&mut img)
        }
        5 => {
            let mut p = TypedImage::<I32>::from_pixels_slice(pw, ph, &mut par.buf).unwrap();
            let mut v = TypedCroppedImageMut::from_ref(&mut p, c.m[0], c.m[1], c.w, c.h).unwrap();
            f(&mut v)
        }
        8 => {
            let mut v = UserViewMut::<I32>::new(&mut par.buf, pw, c.m[0], c.m[1], c.w, c.h);
            f(&mut v)
        }
        _ => {
            let (l1, t1, w1, h1, l2, t2) = nested_outer(c, par);
            let p = TypedImage::<I32>::from_pixels_slice(pw, ph, &mut par.buf).unwrap();
            let outer = TypedCroppedImageMut::new(p, l1, t1, w1, h1).unwrap();
            let mut v = TypedCroppedImageMut::new(outer, l2, t2, c.w, c.h).unwrap();
            f(&mut v)
        }
    }
}

/// object-safe access to the generic mutable split writer
trait MutSplit {
    fn go(&mut self, by_height: bool, start: u32, size: u32, parts: u32, interleave: bool) -> Option<Vec<u32>>;
    fn mixed(&mut self, x0: u32, y0: u32, w: u32, h: u32, t: &mut Tally);
}
impl<V: ImageViewMut<Pixel = I32>> MutSplit for V {
    fn go(&mut self, by_height: bool, start: u32, size: u32, parts: u32, interleave: bool) -> Option<Vec<u32>> {
        write_parts(self, by_height, start, size, parts, interleave)
    }
    fn mixed(&mut self, x0: u32, y0: u32, w: u32, h: u32, t: &mut Tally) {
        check_mixed(self, x0, y0, w, h, t)
    }
}

/// Split-of-split compositions on *mutable* parts: each part of a mutable split is (a) read through its `ImageView`
/// side, (b) split again read-only along both axes, (c) split again mutably along both axes, every sub-part adding
/// 1<<20 to the pixels it exposes - so afterwards every pixel of the band must have been incremented exactly twice
/// (once per axis) and nothing outside the band at all.
fn check_mixed<V: ImageViewMut<Pixel = I32>>(v: &mut V, x0: u32, y0: u32, w: u32, h: u32, t: &mut Tally) {
    for by_height in [true, false] {
        let extent = if by_height { h } else { w };
        if extent == 0 {
            continue;
        }
        let mut triples = vec![(0u32, extent, 1u32), (0, extent, extent.min(2)), (0, extent, extent)];
        if extent >= 3 {
            triples.push((1, extent - 1, 2));
            triples.push((1, extent - 2, extent - 2));
        }
        triples.dedup();
        for (start, size, parts) in triples {
            {
                let ps = if by_height { v.split_by_height_mut(start, nz(size), nz(parts)).map(|p| p.into_iter().map(|x| Box::new(x) as Box<dyn MutPart>).collect::<Vec<_>>()) } else { v.split_by_width_mut(start, nz(size), nz(parts)).map(|p| p.into_iter().map(|x| Box::new(x) as Box<dyn MutPart>).collect::<Vec<_>>()) };
                t.stats.count("mixed_mutability_compositions", 1);
                let Some(mut ps) = ps else {
                    t.fail("unexpected_none", format!("mutable split(start={}, size={}, parts={}) of extent {} returned None", start, size, parts, extent));
                    continue;
                };
                let sizes: Vec<u32> = ps.iter().map(|p| p.ext(by_height)).collect();
                if ps.len() != parts as usize || balanced(&sizes, size, parts).is_err() {
                    t.fail("part_size", format!("mutable split(start={}, size={}, parts={}) of extent {}: extents {:?}", start, size, parts, extent, sizes));
                    continue;
                }
                let mut off = start;
                for (i, p) in ps.iter_mut().enumerate() {
                    let (px, py, pw, ph) = if by_height { (x0, y0 + off, w, sizes[i]) } else { (x0 + off, y0, sizes[i], h) };
                    p.compose(px, py, pw, ph, t);
                    off += sizes[i];
                }
            }
            // read back through the parent view and restore
            let mut ok = true;
            for (y, row) in v.iter_rows_mut(0).enumerate() {
                for (x, p) in row.iter_mut().enumerate() {
                    let along = if by_height { y as u32 } else { x as u32 };
                    let in_band = along >= start && along < start + size;
                    let incs = if in_band { (w > 0 && h > 0) as i32 * 2 } else { 0 };
                    let expect = tag(x0 + x as u32, y0 + y as u32) + (incs << 20);
                    if p.0 != expect && ok {
                        ok = false;
                        t.fail("not_exactly_once", format!("after mutable split-of-split of the parts of split(start={}, size={}, parts={}) along {}: pixel ({},{}) = {:#x}, expected {:#x}", start, size, parts, if by_height { "height" } else { "width" }, x, y, p.0, expect));
                    }
                    p.0 = tag(x0 + x as u32, y0 + y as u32);
                }
            }
        }
    }
}

/// object-safe access to a mutable part
trait MutPart {
    fn ext(&self, by_height: bool) -> u32;
    fn compose(&mut self, x0: u32, y0: u32, w: u32, h: u32, t: &mut Tally);
}
impl<V: ImageViewMut<Pixel = I32>> MutPart for V {
    fn ext(&self, by_height: bool) -> u32 {
        if by_height { self.height() } else { self.width() }
    }
    fn compose(&mut self, x0: u32, y0: u32, w: u32, h: u32, t: &mut Tally) {
        // (a) the read side of a mutable part, (b) its read-only splits
        if !check_rect_masked(self, x0, y0, w, h, t) {
            return;
        }
        check_level2(self, x0, y0, w, h, t);
        // (c) mutable splits of the part along both axes
        for axis_h in [true, false] {
            let e = if axis_h { h } else { w };
            // invalid requests on a part must be refused like on any view
            for (st, sz, k) in [(0u32, e + 1, 1u32), (1, e.max(1), 1), (0, e.max(1), e.max(1) + 1), (e, 1, 1), (u32::MAX, 1, 1), (1, u32::MAX, 1)] {
                let some = if axis_h { self.split_by_height_mut(st, nz(sz), nz(k)).is_some() } else { self.split_by_width_mut(st, nz(sz), nz(k)).is_some() };
                t.stats.count("mut_split_of_split_calls", 1);
                if some != expect_some(e, st, sz, k) {
                    t.fail("unexpected_some", format!("mutable split-of-split(start={}, size={}, parts={}) of a part of extent {} returned Some", st, sz, k, e));
                }
            }
            if e == 0 {
                continue;
            }
            let k = e.min(3);
            let (st, sz) = if e >= 2 && (x0 + y0) % 2 == 1 { (1, e - 1) } else { (0, e) };
            let k = k.min(sz);
            t.stats.count("mut_split_of_split_calls", 1);
            let sub = if axis_h { self.split_by_height_mut(st, nz(sz), nz(k)).map(|s| s.into_iter().map(|x| Box::new(x) as Box<dyn RowsMut>).collect::<Vec<_>>()) } else { self.split_by_width_mut(st, nz(sz), nz(k)).map(|s| s.into_iter().map(|x| Box::new(x) as Box<dyn RowsMut>).collect::<Vec<_>>()) };
            let mut wrote = false;
            {
                let sub = sub;
                match sub {
                    None => t.fail("unexpected_none", format!("mutable split-of-split(start={}, size={}, parts={}) of a part of extent {} returned None", st, sz, k, e)),
                    Some(mut subs) => {
                        let sizes: Vec<u32> = subs.iter().map(|p| p.dims()).map(|(a, b)| if axis_h { b } else { a }).collect();
                        if subs.len() != k as usize || balanced(&sizes, sz, k).is_err() {
                            t.fail("part_size", format!("mutable split-of-split(start={}, size={}, parts={}) of extent {}: extents {:?}", st, sz, k, e, sizes));
                        }
                        for s in subs.iter_mut() {
                            s.add(1 << 20);
                        }
                        wrote = true;
                    }
                }
            }
            // the row/column before `st` was not part of the sub-band: add through the part itself
            if wrote && st == 1 {
                for (y, row) in self.iter_rows_mut(0).enumerate() {
                    for (x, p) in row.iter_mut().enumerate() {
                        if (axis_h && y == 0) || (!axis_h && x == 0) {
                            p.0 += 1 << 20;
                        }
                    }
                }
            }
        }
    }
}

trait RowsMut {
    fn dims(&self) -> (u32, u32);
    fn add(&mut self, v: i32);
}
impl<V: ImageViewMut<Pixel = I32>> RowsMut for V {
    fn dims(&self) -> (u32, u32) {
        (self.width(), self.height())
    }
    fn add(&mut self, v: i32) {
        let w = self.width() as usize;
        for row in self.iter_rows_mut(0) {
            for p in row[..w].iter_mut() {
                p.0 = p.0.wrapping_add(v);
            }
        }
    }
}

/// `check_rect` for a view whose pixels may already carry increments above bit 20 (only the tag is compared).
fn check_rect_masked<V: ImageView<Pixel = I32>>(v: &V, x0: u32, y0: u32, w: u32, h: u32, t: &mut Tally) -> bool {
    check_rect(v, x0, y0, w, h, t)
}
fn write_parts_dyn(v: &mut dyn MutSplit, by_height: bool, start: u32, size: u32, parts: u32, interleave: bool) -> Option<Vec<u32>> {
    v.go(by_height, start, size, parts, interleave)
}

/// Long thin views: band and part counts where `extent * parts` no longer fits 32 bits.
fn run_long(ctx: &mut Ctx) {
    const NS: [u32; 4] = [65_535, 65_536, 70_000, 100_000];
    let mut cases = Vec::new();
    for kind in [0u8, 2, 3, 5] {
        for n in NS {
            for by_height in [false, true] {
                cases.push((kind, n, by_height));
            }
        }
    }
    let total = cases.len() as u64;
    ctx.drive(
        total,
        |_, idx| Some(cases[idx as usize]),
        |c| json!({"view": KINDS[c.0 as usize], "size": if c.2 { [1, c.1] } else { [c.1, 1] }, "split": if c.2 { "by height" } else { "by width" }}),
        |&(kind, n, by_height), stats, viols| {
            stats.nontrivial(&json!([kind, n, by_height]));
            let (w, h) = if by_height { (1, n) } else { (n, 1) };
            let m = if kind >= 3 { [1, 1, 1, 1] } else { [0, 0, 0, 0] };
            let c = SCase { kind, w, h, m };
            let mut t = Tally { stats, viols, ctx: format!("{} {}x{}", KINDS[kind as usize].replace(' ', ""), w, h) };
            let plist: Vec<u32> = vec![1, 2, 3, 7, n / 2, 65_535, 65_536.min(n), 65_537.min(n), n - 1, n];
            for (start, size) in [(0u32, n), (5, n - 7)] {
                for &parts in &plist {
                    if parts == 0 || parts > size {
                        continue;
                    }
                    let (par, x0, y0) = build_parent(&c);
                    let (pw, ph) = (par.pw, par.ph);
                    macro_rules! go {
                        ($v:expr) => {{
                            let v = $v;
                            if by_height {
                                let res = v.split_by_height(start, nz(size), nz(parts));
                                check_split_result!(res, true, x0, y0, w, h, start, size, parts, &mut t, |_part, _px, _py, _pw, _ph| ());
                            } else {
                                let res = v.split_by_width(start, nz(size), nz(parts));
                                check_split_result!(res, false, x0, y0, w, h, start, size, parts, &mut t, |_part, _px, _py, _pw, _ph| ());
                            }
                        }};
                    }
                    match kind {
                        0 => go!(TypedImage::<I32>::from_pixels(pw, ph, par.buf.clone()).unwrap()),
                        2 => go!(TypedImageRef::<I32>::new(pw, ph, &par.buf).unwrap()),
                        3 => {
                            let p = TypedImageRef::<I32>::new(pw, ph, &par.buf).unwrap();
                            go!(TypedCroppedImage::from_ref(&p, x0, y0, w, h).unwrap())
                        }
                        _ => {
                            let mut b = par.buf.clone();
                            let mut p = TypedImage::<I32>::from_pixels_slice(pw, ph, &mut b).unwrap();
                            go!(TypedCroppedImageMut::from_ref(&mut p, x0, y0, w, h).unwrap())
                        }
                    }
                    t.stats.count("long_splits", 1);
                    // mutable variant: write through the parts, read back through the parent
                    if kind == 0 || kind == 5 {
                        let (mut par, x0, y0) = build_parent(&c);
                        let got = with_mut_view(&c, &mut par, |v| write_parts_dyn(v, by_height, start, size, parts, false));
                        match got {
                            None => t.fail("unexpected_none", format!("mutable split(start={}, size={}, parts={}) of extent {} returned None", start, size, parts, n)),
                            Some(sizes) => {
                                if sizes.len() != parts as usize {
                                    t.fail("part_count", format!("{} mutable parts returned, {} requested", sizes.len(), parts));
                                } else if let Err(m) = balanced(&sizes, size, parts) {
                                    t.fail("part_size", m);
                                } else {
                                    // owner of each band offset
                                    let mut owner = vec![0i32; size as usize];
                                    let mut off = 0usize;
                                    for (i, s) in sizes.iter().enumerate() {
                                        for o in owner[off..off + *s as usize].iter_mut() {
                                            *o = i as i32 + 1;
                                        }
                                        off += *s as usize;
                                    }
                                    'scan: for py in 0..par.ph {
                                        for px in 0..par.pw {
                                            let val = par.buf[(py * par.pw + px) as usize].0;
                                            let in_view = px >= x0 && px < x0 + w && py >= y0 && py < y0 + h;
                                            let along = if by_height { py.wrapping_sub(y0) } else { px.wrapping_sub(x0) };
                                            // (index+1) << 20 overflows i32 for many parts: compare modulo 2^32
                                            let expect = if in_view && along >= start && along < start + size { tag(px, py).wrapping_add(owner[(along - start) as usize].wrapping_shl(20)) } else { tag(px, py) };
                                            if val != expect {
                                                t.fail("not_exactly_once", format!("mutable split(start={}, size={}, parts={}): parent pixel ({},{}) = {:#x}, expected {:#x}", start, size, parts, px, py, val, expect));
                                                break 'scan;
                                            }
                                        }
                                    }
                                    t.stats.count("pixels_read_back_through_parent", (par.pw * par.ph) as u64);
                                }
                            }
                        }
                    }
                }
            }
        },
    );
}

/// One image of more than 2^32 pixels (65 536 x 65 544 U8, 4.3 GB of lazily zeroed memory of which only a few pages are
/// touched): offsets of bands beyond 2^32. Parts are judged by the *addresses* of their first and last rows, which says
/// exactly which pixels they expose without reading them. If the host refuses the allocation the step observes nothing
/// and says so (no verdict either way).
fn run_huge(ctx: &mut Ctx) {
    use fr::pixels::U8;
    const W: u32 = 65_536;
    const H: u32 = 65_544;
    ctx.drive(
        1,
        |_, _| Some(()),
        |_| json!({"view": "TypedImage / TypedImageRef / cropped, U8", "size": [W, H]}),
        |_, stats, viols| {
            let n = W as usize * H as usize;
            let layout = std::alloc::Layout::array::<u8>(n).unwrap();
            let base = unsafe { std::alloc::alloc_zeroed(layout) };
            if base.is_null() {
                stats.count("huge_allocation_refused", 1);
                stats.notes.push("the host refused 4.3 GB of zeroed memory: the > 2^32-pixel image was not exercised".into());
                return;
            }
            stats.nontrivial(&json!(["huge", W, H]));
            stats.count("huge_images", 1);
            let b0 = base as usize;
            let mut fail = |kind: &str, msg: String| {
                if viols.len() < 4 {
                    viols.push(Viol::new(kind, format!("U8 {}x{}: {}", W, H, msg)).sig(json!({"view": "huge"})));
                }
            };
            // (first row address, last row address, row length, rows) of a view, relative to the buffer
            fn span<V: ImageView<Pixel = fr::pixels::U8>>(v: &V, b0: usize) -> (usize, usize, usize, u32) {
                let h = v.height();
                let first = v.iter_rows(0).next().map(|r| (r.as_ptr() as usize - b0, r.len()));
                let last = if h > 0 { v.iter_rows(h - 1).next().map(|r| r.as_ptr() as usize - b0) } else { None };
                (first.map_or(usize::MAX, |f| f.0), last.unwrap_or(usize::MAX), first.map_or(0, |f| f.1), h)
            }
            let triples: [(u32, u32, u32); 7] = [(65_536, 8, 2), (65_535, 9, 3), (0, H, 4), (1, 1, 1), (65_537, 7, 7), (40_000, 25_544, 5), (H - 1, 1, 1)];
            {
                let pixels = unsafe { std::slice::from_raw_parts_mut(base as *mut U8, n) };
                let mut img = TypedImage::<U8>::from_pixels_slice(W, H, pixels).unwrap();
                // read-only height and width splits of TypedImage, of a TypedImageRef-like cropped view over it, and mutable splits
                for &(start, size, parts) in &triples {
                    stats.count("huge_splits", 3);
                    let check = |what: &str, got: Vec<(usize, usize, usize, u32)>, x0: usize, y0: u32, w: usize, fail: &mut dyn FnMut(&str, String)| {
                        let sizes: Vec<u32> = got.iter().map(|g| g.3).collect();
                        if got.len() != parts as usize || balanced(&sizes, size, parts).is_err() {
                            fail("part_size", format!("{} split(start={}, size={}, parts={}): extents {:?}", what, start, size, parts, sizes));
                            return;
                        }
                        let mut row = y0 as usize + start as usize;
                        for (i, g) in got.iter().enumerate() {
                            let (f, l) = (row * W as usize + x0, (row + g.3 as usize - 1) * W as usize + x0);
                            if g.0 != f || g.1 != l || g.2 != w {
                                fail("wrong_pixel", format!("{} split(start={}, size={}, parts={}): part {} exposes rows at byte offsets {}..{} (row length {}), its band lies at {}..{} (row length {})", what, start, size, parts, i, g.0, g.1, g.2, f, l, w));
                                return;
                            }
                            row += g.3 as usize;
                        }
                    };
                    match img.split_by_height(start, nz(size), nz(parts)) {
                        Some(ps) => check("TypedImage", ps.iter().map(|p| span(p, b0)).collect(), 0, 0, W as usize, &mut fail),
                        None => fail("unexpected_none", format!("TypedImage split_by_height(start={}, size={}, parts={}) returned None", start, size, parts)),
                    }
                    {
                        let crop = TypedCroppedImage::from_ref(&img, 5, 3, 1000, H - 3).unwrap();
                        if start + size <= H - 3 {
                            match crop.split_by_height(start, nz(size), nz(parts)) {
                                Some(ps) => check("TypedCroppedImage", ps.iter().map(|p| span(p, b0)).collect(), 5, 3, 1000, &mut fail),
                                None => fail("unexpected_none", format!("cropped split_by_height(start={}, size={}, parts={}) returned None", start, size, parts)),
                            }
                        }
                    }
                    match img.split_by_height_mut(start, nz(size), nz(parts)) {
                        Some(ps) => check("TypedImage (mutable)", ps.iter().map(|p| span(p, b0)).collect(), 0, 0, W as usize, &mut fail),
                        None => fail("unexpected_none", format!("TypedImage split_by_height_mut(start={}, size={}, parts={}) returned None", start, size, parts)),
                    }
                }
                // column bands of the same image: every part spans all rows
                for &(start, size, parts) in &[(0u32, W, 3u32), (65_000, 536, 5), (1, 65_535, 65_535)] {
                    stats.count("huge_splits", 2);
                    let checkw = |what: &str, got: Vec<(usize, usize, usize, u32)>, fail: &mut dyn FnMut(&str, String)| {
                        let sizes: Vec<u32> = got.iter().map(|g| g.2 as u32).collect();
                        if got.len() != parts as usize || balanced(&sizes, size, parts).is_err() {
                            fail("part_size", format!("{} split_by_width(start={}, size={}, parts={}): extents {:?}", what, start, size, parts, &sizes[..sizes.len().min(8)]));
                            return;
                        }
                        let mut col = start as usize;
                        for (i, g) in got.iter().enumerate() {
                            if g.0 != col || g.1 != (H as usize - 1) * W as usize + col || g.3 != H {
                                fail("wrong_pixel", format!("{} split_by_width(start={}, size={}, parts={}): part {} starts at byte offset {} and ends at row offset {}, expected column {}", what, start, size, parts, i, g.0, g.1, col));
                                return;
                            }
                            col += g.2;
                        }
                    };
                    match img.split_by_width(start, nz(size), nz(parts)) {
                        Some(ps) => checkw("TypedImage", ps.iter().map(|p| span(p, b0)).collect(), &mut fail),
                        None => fail("unexpected_none", format!("TypedImage split_by_width(start={}, size={}, parts={}) returned None", start, size, parts)),
                    }
                    match img.split_by_width_mut(start, nz(size), nz(parts)) {
                        Some(ps) => checkw("TypedImage (mutable)", ps.iter().map(|p| span(p, b0)).collect(), &mut fail),
                        None => fail("unexpected_none", format!("TypedImage split_by_width_mut(start={}, size={}, parts={}) returned None", start, size, parts)),
                    }
                }
            }
            {
                let pixels = unsafe { std::slice::from_raw_parts(base as *const U8, n) };
                let img = TypedImageRef::<U8>::new(W, H, pixels).unwrap();
                for &(start, size, parts) in &triples {
                    stats.count("huge_splits", 1);
                    match img.split_by_height(start, nz(size), nz(parts)) {
                        Some(ps) => {
                            let mut row = start as usize;
                            for (i, p) in ps.iter().enumerate() {
                                let g = span(p, b0);
                                if g.0 != row * W as usize || g.2 != W as usize {
                                    fail("wrong_pixel", format!("TypedImageRef split_by_height(start={}, size={}, parts={}): part {} starts at byte offset {}, its band at {}", start, size, parts, i, g.0, row * W as usize));
                                    break;
                                }
                                row += g.3 as usize;
                            }
                            if row != (start + size) as usize {
                                fail("part_size", format!("TypedImageRef split_by_height(start={}, size={}, parts={}): parts cover {} rows", start, size, parts, row - start as usize));
                            }
                        }
                        None => fail("unexpected_none", format!("TypedImageRef split_by_height(start={}, size={}, parts={}) returned None", start, size, parts)),
                    }
                }
            }
            unsafe { std::alloc::dealloc(base, layout) };
        },
    );
}

pub fn run(ctx: &mut Ctx) {
    if ctx.sub == "long" {
        return run_long(ctx);
    }
    if ctx.sub == "huge" {
        return run_huge(ctx);
    }
    // exhaustive over view sizes 0..=max x 0..=max, all kinds, all placements from a small margin set
    let max: u32 = if ctx.is_miri { 3 } else if ctx.quick() { 12 } else { 34 };
    let margins: Vec<[u32; 4]> = vec![[0, 0, 0, 0], [1, 2, 3, 1], [2, 0, 0, 3]];
    let mut cases = Vec::new();
    for kind in 0..9u8 {
        for w in 0..=max {
            for h in 0..=max {
                for m in &margins {
                    if kind <= 2 && (m[0] != 0 || (kind != 1 && *m != [0, 0, 0, 0])) {
                        continue;
                    }
                    if kind >= 3 && (w == 0 || h == 0) && *m == [0, 0, 0, 0] {
                        // a zero-sized crop needs a non-empty parent (position must be inside)
                        continue;
                    }
                    cases.push(SCase { kind, w, h, m: *m });
                }
            }
        }
    }
    let total = cases.len() as u64;
    let interleave = ctx.sub == "interleave";
    let deep = !ctx.is_miri;
    ctx.stats.notes.push(format!("exhaustive domain: {} (view kind, size, placement) combinations, view sizes 0..={}", total, max));
    ctx.drive(
        total,
        |_, idx| Some(cases[idx as usize]),
        |c| -> Value { json!({"view": KINDS[c.kind as usize], "size": [c.w, c.h], "parent_margins_ltrb": c.m}) },
        |c, stats, viols| {
            stats.nontrivial(&json!([c.kind, c.w, c.h, c.m]));
            let ctxs = format!("{} {}x{} margins {:?}", KINDS[c.kind as usize].replace(' ', ""), c.w, c.h, c.m);
            let mut t = Tally { stats, viols, ctx: ctxs };
            let (par, x0, y0) = build_parent(c);
            let (pw, ph) = (par.pw, par.ph);
            match c.kind {
                0 => {
                    let img = TypedImage::<I32>::from_pixels(pw, ph, par.buf.clone()).unwrap();
                    check_view(&img, 0, 0, c.w, c.h, &mut t, deep);
                }
                1 => {
                    let mut b = par.buf.clone();
                    let img = TypedImage::<I32>::from_pixels_slice(c.w, c.h, &mut b).unwrap();
                    check_view(&img, 0, 0, c.w, c.h, &mut t, deep);
                }
                2 => {
                    let img = TypedImageRef::<I32>::new(pw, ph, &par.buf).unwrap();
                    check_view(&img, 0, 0, c.w, c.h, &mut t, deep);
                }
                3 => {
                    let p = TypedImageRef::<I32>::new(pw, ph, &par.buf).unwrap();
                    let v = TypedCroppedImage::from_ref(&p, x0, y0, c.w, c.h).unwrap();
                    check_view(&v, x0, y0, c.w, c.h, &mut t, deep);
                }
                4 => {
                    let (l1, t1, w1, h1, l2, t2) = nested_outer(c, &par);
                    let p = TypedImageRef::<I32>::new(pw, ph, &par.buf).unwrap();
                    let outer = TypedCroppedImage::new(p, l1, t1, w1, h1).unwrap();
                    let v = TypedCroppedImage::from_ref(&outer, l2, t2, c.w, c.h).unwrap();
                    check_view(&v, x0, y0, c.w, c.h, &mut t, deep);
                }
                5 => {
                    let mut b = par.buf.clone();
                    let mut p = TypedImage::<I32>::from_pixels_slice(pw, ph, &mut b).unwrap();
                    let v = TypedCroppedImageMut::from_ref(&mut p, x0, y0, c.w, c.h).unwrap();
                    check_view(&v, x0, y0, c.w, c.h, &mut t, deep);
                }
                7 => {
                    let v = UserView::<I32>::new(&par.buf, pw, x0, y0, c.w, c.h);
                    check_view(&v, x0, y0, c.w, c.h, &mut t, deep);
                }
                8 => {
                    let mut b = par.buf.clone();
                    let v = UserViewMut::<I32>::new(&mut b, pw, x0, y0, c.w, c.h);
                    check_view(&v, x0, y0, c.w, c.h, &mut t, deep);
                }
                _ => {
                    let (l1, t1, w1, h1, l2, t2) = nested_outer(c, &par);
                    let mut b = par.buf.clone();
                    let p = TypedImage::<I32>::from_pixels_slice(pw, ph, &mut b).unwrap();
                    let outer = TypedCroppedImageMut::new(p, l1, t1, w1, h1).unwrap();
                    let v = TypedCroppedImageMut::new(outer, l2, t2, c.w, c.h).unwrap();
                    check_view(&v, x0, y0, c.w, c.h, &mut t, deep);
                }
            }
            if matches!(c.kind, 0 | 1 | 5 | 6 | 8) {
                check_view_mut(c, &mut t, interleave);
                if !interleave {
                    let (mut par, x0, y0) = build_parent(c);
                    with_mut_view(c, &mut par, |v| v.mixed(x0, y0, c.w, c.h, &mut t));
                }
            }
        },
    );
}
