//! C07: alpha-aware resizing ignores the colour of fully transparent pixels.
use firv::content::*;
use firv::exec::*;
use firv::fr;
use firv::gen::*;
use firv::px::*;
use firv::rng::Rng;
use firv::run::*;
use firv::serde_json::json;
use firv::spec::*;
use firv::with_px;

pub fn run(ctx: &mut Ctx) {
    let mut o = GenOpts::conv_all(&ALL_PT);
    o.alpha_mode = 1;
    o.max_side = 48;
    o.strip_max = 1024;
    let total = ctx.n;
    let seed = ctx.seed;
    ctx.drive(
        total,
        |_, idx| {
            let mut rng = Rng::for_case(seed, "C07", idx);
            let mut c = random_case(&mut rng, &o);
            // 5 of 6 cases on alpha types; the rest checks that use_alpha has no effect elsewhere
            if idx % 6 != 5 {
                c.pt = ALPHA_PT[(idx % 6 % 6) as usize];
                c.content = gen_content(&mut rng, pt_kind(c.pt));
                if pt_kind(c.pt) == CompKind::F32 {
                    // finite moderate colours
                    c.content = Content { kind: 0, seed: rng.next(), a: if rng.chance(1, 2) { 0.0 } else { -4.0 }, b: *rng.pick(&[1.0, 4.0, 100.0]) };
                }
                c.alpha = Some(gen_alpha_pat(&mut rng));
            } else {
                c.alpha = None;
            }
            c.use_alpha = true;
            Some(c)
        },
        |c| c.to_json(),
        |c, stats, viols| with_px!(c.pt, P => exec::<P>(c, stats, viols)),
    );
}

fn is_zero<C: Comp>(c: C) -> bool {
    c.to_f64() == 0.0
}

fn same_value<C: Comp>(a: C, b: C) -> bool {
    a.bits() == b.bits() || (C::KIND == CompKind::F32 && a.to_f64() == b.to_f64())
}

fn exec<P: Px>(c: &RCase, stats: &mut Stats, viols: &mut Vec<Viol>) {
    let nc = P::NC;
    let src = make_pixels::<P>(c.sw, c.sh, &c.content, c.alpha.as_ref());
    let opts_on = c.options();
    let mut c_off = c.clone();
    c_off.use_alpha = false;
    let opts_off = c_off.options();
    let n = c.dw as usize * c.dh as usize;
    {
        // C12 fixes the result of this geometry for every alpha setting: a bit-exact copy of the region
        // (colours under zero alpha included), so C07's relations are not judged on it.
        let [l, t, cw, ch] = c.crop_box();
        if cw == c.dw as f64 && ch == c.dh as f64 && l == l.round() && t == t.round() {
            stats.count("identity_geometry_excluded", 1);
            return;
        }
    }
    let sig = |what: &str, ext: Ext| json!({"pt": P::NAME, "ext": ext.name(), "relation": what});

    if !P::HAS_ALPHA {
        // (v) no alpha channel: the option has no effect
        for ext in ALL_EXT {
            let a = resize_vec::<P>(&src, c.sw, c.sh, c.dw, c.dh, &opts_on, ext);
            let b = resize_vec::<P>(&src, c.sw, c.sh, c.dw, c.dh, &opts_off, ext);
            match (a, b) {
                (Ok(a), Ok(b)) => {
                    if P::bits_of(&a) != P::bits_of(&b) {
                        viols.push(Viol::new("use_alpha_changes_non_alpha_type", format!("{}: results differ", ext.name())).sig(sig("v", ext)));
                    }
                }
                (a, b) => viols.push(Viol::new("unexpected_error", format!("{:?} {:?}", a.err(), b.err()))),
            }
        }
        stats.count("non_alpha_type_cases", 1);
        return;
    }

    // source B: same alphas, other colours where alpha is zero
    let mut rng = Rng::for_case(c.content.seed, "C07b", 0);
    let mut src_b = src.clone();
    let mut zero_alpha_pixels = 0usize;
    {
        let comps = P::components_mut(&mut src_b);
        for i in 0..src.len() {
            if is_zero(comps[i * nc + nc - 1]) {
                zero_alpha_pixels += 1;
                for ch in 0..nc - 1 {
                    comps[i * nc + ch] = match P::kind() {
                        CompKind::F32 => P::C::from_f64(*rng.pick(&[0.0, 1.0, -1.0, 1e6, -3.5e4, 0.25]) * (1.0 + rng.unit())),
                        _ => P::C::from_bits(if rng.chance(1, 3) { u64::MAX } else { rng.next() }),
                    };
                }
            }
        }
    }
    let opaque = {
        let comps = P::components(&src);
        let amax = if P::kind() == CompKind::F32 { 1.0 } else { P::kind().range().1 };
        (0..src.len()).all(|i| comps[i * nc + nc - 1].to_f64() == amax)
    };
    if zero_alpha_pixels > 0 && zero_alpha_pixels < src.len() {
        stats.nontrivial(&c.to_json());
        stats.count("cases_with_partial_transparency", 1);
    }
    if opaque {
        stats.count("opaque_cases", 1);
    }
    stats.count("zero_alpha_source_pixels", zero_alpha_pixels as u64);

    for ext in ALL_EXT {
        let ra = resize_vec::<P>(&src, c.sw, c.sh, c.dw, c.dh, &opts_on, ext);
        let rb = resize_vec::<P>(&src_b, c.sw, c.sh, c.dw, c.dh, &opts_on, ext);
        let roff = resize_vec::<P>(&src, c.sw, c.sh, c.dw, c.dh, &opts_off, ext);
        let (a, b, off) = match (ra, rb, roff) {
            (Ok(a), Ok(b), Ok(o)) => (a, b, o),
            (a, b, o) => {
                viols.push(Viol::new("unexpected_error", format!("{:?} {:?} {:?}", a.err(), b.err(), o.err())));
                continue;
            }
        };
        let (ac, bc, oc) = (P::components(&a), P::components(&b), P::components(&off));
        // (i) colours under zero alpha are ignored
        if let Some(i) = (0..n * nc).find(|&i| !same_value(ac[i], bc[i])) {
            viols.push(
                Viol::new("depends_on_colour_under_zero_alpha", format!("{}: pixel {} comp {}: {:?} vs {:?} ({} transparent source pixels)", ext.name(), i / nc, i % nc, ac[i], bc[i], zero_alpha_pixels))
                    .sig(sig("i", ext)),
            );
        }
        // (ii) zero alpha => zero colour
        for i in 0..n {
            if is_zero(ac[i * nc + nc - 1]) {
                stats.count("zero_alpha_dst_pixels", 1);
                if let Some(ch) = (0..nc - 1).find(|&ch| !is_zero(ac[i * nc + ch])) {
                    viols.push(
                        Viol::new("colour_under_zero_alpha_in_result", format!("{}: pixel {} = {:?}", ext.name(), i, a[i])).sig(sig("ii", ext)),
                    );
                    let _ = ch;
                    break;
                }
            }
        }
        // (iv) alpha channel resampled as a plain channel
        if let Some(i) = (0..n).find(|&i| !same_value(ac[i * nc + nc - 1], oc[i * nc + nc - 1])) {
            viols.push(
                Viol::new("alpha_channel_differs_from_plain_resampling", format!("{}: pixel {}: alpha-on {:?} alpha-off {:?}", ext.name(), i, a[i], off[i])).sig(sig("iv", ext)),
            );
        }
        // (vii) the alpha channel is resampled like an image of its own: the alpha plane alone, as a one-channel image of the
        //       same component type, through the same geometry/filter/back-end (the coefficients depend on the geometry only and the
        //       fixed-point arithmetic on the component type only, so integers are bit-identical; floats re-associate an f64 sum)
        {
            let plane_f64: Vec<f64> = {
                let sc = P::components(&src);
                (0..src.len()).map(|i| sc[i * nc + nc - 1].to_f64()).collect()
            };
            let got: Option<Vec<f64>> = match P::kind() {
                CompKind::U8 => {
                    let plane: Vec<fr::pixels::U8> = plane_f64.iter().map(|&v| fr::pixels::U8::new(v as u8)).collect();
                    resize_vec::<fr::pixels::U8>(&plane, c.sw, c.sh, c.dw, c.dh, &opts_off, ext).ok().map(|v| v.iter().map(|p| p.0 as f64).collect())
                }
                CompKind::U16 => {
                    let plane: Vec<fr::pixels::U16> = plane_f64.iter().map(|&v| fr::pixels::U16::new(v as u16)).collect();
                    resize_vec::<fr::pixels::U16>(&plane, c.sw, c.sh, c.dw, c.dh, &opts_off, ext).ok().map(|v| v.iter().map(|p| p.0 as f64).collect())
                }
                CompKind::F32 => {
                    let plane: Vec<fr::pixels::F32> = plane_f64.iter().map(|&v| fr::pixels::F32::new(v as f32)).collect();
                    resize_vec::<fr::pixels::F32>(&plane, c.sw, c.sh, c.dw, c.dh, &opts_off, ext).ok().map(|v| v.iter().map(|p| p.0 as f64).collect())
                }
                _ => None,
            };
            if let Some(got) = got {
                stats.count("alpha_plane_checks", 1);
                let amax = plane_f64.iter().fold(0.0f64, |m, v| m.max(v.abs()));
                let tol = if P::kind() == CompKind::F32 { 8.0 * ulp32_up(4.0 * amax) } else { 0.0 };
                if let Some(i) = (0..n).find(|&i| !((ac[i * nc + nc - 1].to_f64() - got[i]).abs() <= tol)) {
                    viols.push(
                        Viol::new("alpha_channel_differs_from_plain_resampling", format!("{}: pixel {}: alpha of the result {:?}, the alpha plane resized alone as a one-channel image gives {}", ext.name(), i, ac[i * nc + nc - 1], got[i])).sig(sig("vii", ext)),
                    );
                }
            }
        }
        // (vi) composition: alpha-aware resizing is exactly multiply_alpha -> plain resize -> divide_alpha
        //      (same back-end, same operations in the same order, so bit-identical)
        {
            let mut md = fr::MulDiv::new();
            unsafe { md.set_cpu_extensions(ext.to_fr()) };
            let mut pre = src.clone();
            {
                let mut img = fr::images::TypedImage::<P>::from_pixels_slice(c.sw, c.sh, &mut pre).unwrap();
                md.multiply_alpha_inplace_typed(&mut img).unwrap();
            }
            if let Ok(mut comp) = resize_vec::<P>(&pre, c.sw, c.sh, c.dw, c.dh, &opts_off, ext) {
                {
                    let mut img = fr::images::TypedImage::<P>::from_pixels_slice(c.dw, c.dh, &mut comp).unwrap();
                    md.divide_alpha_inplace_typed(&mut img).unwrap();
                }
                stats.count("composition_checks", 1);
                let cc = P::components(&comp);
                if let Some(i) = (0..n * nc).find(|&i| !same_value(ac[i], cc[i])) {
                    viols.push(
                        Viol::new("not_multiply_resize_divide", format!("{}: pixel {} comp {}: alpha-aware resize {:?}, multiply->resize->divide {:?}", ext.name(), i / nc, i % nc, ac[i], cc[i])).sig(sig("vi", ext)),
                    );
                }
            }
        }
        // frames decoded into one buffer: a long-lived Resizer resizes the buffer, the buffer is overwritten in place with another
        // frame (same address, size and type; the alpha plane inverted, so transparency moves), and is resized again - relations
        // (ii) and (vii) are judged on the second frame (whatever the Resizer keeps between calls may not stand in for the new pixels)
        {
            let amax = if P::kind() == CompKind::F32 { 1.0 } else { P::kind().range().1 };
            let mut buf = src.clone();
            let mut r = resizer(ext);
            let first = resize_with::<P>(&mut r, &buf, c.sw, c.sh, c.dw, c.dh, &opts_on);
            {
                let comps = P::components_mut(&mut buf);
                for i in 0..src.len() {
                    let a = comps[i * nc + nc - 1].to_f64();
                    comps[i * nc + nc - 1] = P::C::from_f64((amax - a).clamp(0.0, amax));
                    for ch in 0..nc - 1 {
                        // finite colours, other than before
                        comps[i * nc + ch] = match P::kind() {
                            CompKind::F32 => P::C::from_f64(0.75 - 0.5 * comps[i * nc + ch].to_f64().clamp(-4.0, 4.0)),
                            _ => P::C::from_bits(!comps[i * nc + ch].bits()),
                        };
                    }
                }
            }
            let first_ok = first.is_ok();
            let mut frames: Vec<(&str, Result<Vec<P>, fr::ResizeError>, Vec<P>)> = Vec::new();
            frames.push(("second frame in the same buffer", resize_with::<P>(&mut r, &buf, c.sw, c.sh, c.dw, c.dh, &opts_on), buf.clone()));
            if c.sh >= 5 {
                // third frame: only some rows are edited in place (not the first, the middle or the last one): transparency appears there
                let comps = P::components_mut(&mut buf);
                let (sw, sh) = (c.sw as usize, c.sh as usize);
                for y in 1..sh - 1 {
                    if y == sh / 2 || y % 2 == 0 {
                        continue;
                    }
                    for x in 0..sw {
                        let i = y * sw + x;
                        let a = comps[i * nc + nc - 1].to_f64();
                        comps[i * nc + nc - 1] = P::C::from_f64(if a == 0.0 { amax } else { 0.0 });
                    }
                }
                frames.push(("third frame (some rows edited in place)", resize_with::<P>(&mut r, &buf, c.sw, c.sh, c.dw, c.dh, &opts_on), buf.clone()));
            }
            for (which, second, buf) in frames {
            let which: &str = which;
            if let (true, Ok(sec)) = (first_ok, second) {
                stats.count("second_frames_in_the_same_buffer", 1);
                let sc = P::components(&sec);
                let plane: Vec<f64> = {
                    let bc = P::components(&buf);
                    (0..buf.len()).map(|i| bc[i * nc + nc - 1].to_f64()).collect()
                };
                let got: Option<Vec<f64>> = match P::kind() {
                    CompKind::U8 => {
                        let pl: Vec<fr::pixels::U8> = plane.iter().map(|&v| fr::pixels::U8::new(v as u8)).collect();
                        resize_vec::<fr::pixels::U8>(&pl, c.sw, c.sh, c.dw, c.dh, &opts_off, ext).ok().map(|v| v.iter().map(|p| p.0 as f64).collect())
                    }
                    CompKind::U16 => {
                        let pl: Vec<fr::pixels::U16> = plane.iter().map(|&v| fr::pixels::U16::new(v as u16)).collect();
                        resize_vec::<fr::pixels::U16>(&pl, c.sw, c.sh, c.dw, c.dh, &opts_off, ext).ok().map(|v| v.iter().map(|p| p.0 as f64).collect())
                    }
                    CompKind::F32 => {
                        let pl: Vec<fr::pixels::F32> = plane.iter().map(|&v| fr::pixels::F32::new(v as f32)).collect();
                        resize_vec::<fr::pixels::F32>(&pl, c.sw, c.sh, c.dw, c.dh, &opts_off, ext).ok().map(|v| v.iter().map(|p| p.0 as f64).collect())
                    }
                    _ => None,
                };
                if let Some(got) = got {
                    let tol = if P::kind() == CompKind::F32 { 8.0 * ulp32_up(4.0) } else { 0.0 };
                    if let Some(i) = (0..n).find(|&i| !((sc[i * nc + nc - 1].to_f64() - got[i]).abs() <= tol)) {
                        viols.push(
                            Viol::new("alpha_channel_differs_from_plain_resampling", format!("{}: {}: pixel {}: alpha of the result {:?}, the alpha plane of that frame resized alone gives {}", ext.name(), which, i, sc[i * nc + nc - 1], got[i])).sig(sig("vii-frame2", ext)),
                        );
                    }
                }
                for i in 0..n {
                    if is_zero(sc[i * nc + nc - 1]) && (0..nc - 1).any(|ch| !is_zero(sc[i * nc + ch])) {
                        viols.push(Viol::new("colour_under_zero_alpha_in_result", format!("{}: {}: pixel {} = {:?}", ext.name(), which, i, sec[i])).sig(sig("ii-frame2", ext)));
                        break;
                    }
                }
            }
        }
        }
        // (iii) opaque source: same as alpha handling disabled
        if opaque {
            for i in 0..n * nc {
                if same_value(ac[i], oc[i]) {
                    continue;
                }
                let ok = match P::kind() {
                    // c*1 and c/1 are exact; the resampled alpha is 1 up to rounding, so c/a moves by a few ulp
                    CompKind::F32 => {
                        let (x, y) = (ac[i].to_f64(), oc[i].to_f64());
                        (x - y).abs() <= 4.0 * ulp32_up(x.abs().max(y.abs()))
                    }
                    _ => false,
                };
                if !ok {
                    viols.push(
                        Viol::new("opaque_source_differs_from_alpha_off", format!("{}: pixel {} comp {}: alpha-on {:?} alpha-off {:?}", ext.name(), i / nc, i % nc, ac[i], oc[i])).sig(sig("iii", ext)),
                    );
                    break;
                }
            }
        }
    }
}
