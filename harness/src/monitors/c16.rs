//! C16: colour-space mappers are monotone, fix the endpoints and keep alpha.
use firv::fr;
use firv::px::*;
use firv::run::*;
use firv::serde_json::json;
use fr::images::*;
use fr::pixels::*;
use fr::{MappingError, PixelComponentMapper, PixelType};

fn srgb_to_linear(v: f64) -> f64 {
    if v < 0.04045 { v / 12.92 } else { ((v + 0.055) / 1.055).powf(2.4) }
}
fn linear_to_srgb(v: f64) -> f64 {
    if v < 0.0031308 { 12.92 * v } else { 1.055 * v.powf(1.0 / 2.4) - 0.055 }
}
fn gamma_to_linear(v: f64) -> f64 {
    v.powf(2.2)
}
fn linear_to_gamma(v: f64) -> f64 {
    v.powf(1.0 / 2.2)
}

#[derive(Clone, Copy, Debug)]
pub struct MCase {
    mapper: u8,
    forward: bool,
    src16: bool,
    dst16: bool,
    nc: u8,
    inplace: bool,
}

fn pt_of(bits16: bool, nc: u8) -> PixelType {
    match (bits16, nc) {
        (false, 1) => PixelType::U8,
        (false, 2) => PixelType::U8x2,
        (false, 3) => PixelType::U8x3,
        (false, _) => PixelType::U8x4,
        (true, 1) => PixelType::U16,
        (true, 2) => PixelType::U16x2,
        (true, 3) => PixelType::U16x3,
        (true, _) => PixelType::U16x4,
    }
}

/// ramp image: every component value of the source depth appears in every component position;
/// width chosen so that the alpha component falls on every position within a row (widths 1..=9 in turn)
fn ramp(src16: bool, nc: usize, width: usize) -> (Vec<u64>, usize, usize) {
    let nvals = if src16 { 65536 } else { 256 };
    let total_comps = nvals * nc; // pixel i: comp ch = (i + ch * 37) % nvals
    let npx = total_comps / nc;
    let h = (npx + width - 1) / width;
    let mut comps = vec![0u64; h * width * nc];
    for i in 0..h * width {
        for ch in 0..nc {
            comps[i * nc + ch] = ((i + ch * 37) % nvals) as u64;
        }
    }
    (comps, width, h)
}

fn to_image(comps: &[u64], bits16: bool, nc: u8, w: usize, h: usize) -> Image<'static> {
    let mut img = Image::new(w as u32, h as u32, pt_of(bits16, nc));
    let buf = img.buffer_mut();
    if bits16 {
        for (i, &c) in comps.iter().enumerate() {
            buf[i * 2..i * 2 + 2].copy_from_slice(&(c as u16).to_ne_bytes());
        }
    } else {
        for (i, &c) in comps.iter().enumerate() {
            buf[i] = c as u8;
        }
    }
    img
}

fn from_image(img: &Image, bits16: bool) -> Vec<u64> {
    let b = img.buffer();
    if bits16 {
        b.chunks_exact(2).map(|c| u16::from_ne_bytes([c[0], c[1]]) as u64).collect()
    } else {
        b.iter().map(|&c| c as u64).collect()
    }
}

fn depth_convert(v: u64, src16: bool, dst16: bool) -> u64 {
    // what IntoPixelComponent documents for alpha: widen by repeating the byte, narrow by the high byte
    match (src16, dst16) {
        (false, true) => v << 8 | v,
        (true, false) => v >> 8,
        _ => v,
    }
}

pub fn run(ctx: &mut Ctx) {
    if ctx.sub == "errors" {
        return run_errors(ctx);
    }
    let mut cases = Vec::new();
    for mapper in 0..2u8 {
        for forward in [true, false] {
            for src16 in [false, true] {
                for dst16 in [false, true] {
                    for nc in 1..=4u8 {
                        cases.push(MCase { mapper, forward, src16, dst16, nc, inplace: false });
                        if src16 == dst16 {
                            cases.push(MCase { mapper, forward, src16, dst16, nc, inplace: true });
                        }
                    }
                }
            }
        }
    }
    ctx.stats.notes.push(format!("exhaustive: {} (mapper, direction, depth pair, component count, variant) combinations x all component values x row widths 1..=9", cases.len()));
    let mappers = [fr::create_srgb_mapper(), fr::create_gamma_22_mapper()];
    let total = cases.len() as u64;
    ctx.drive(
        total,
        |_, idx| Some(cases[idx as usize]),
        |c| json!({"mapper": if c.mapper == 0 {"srgb"} else {"gamma22"}, "direction": if c.forward {"forward"} else {"backward"}, "src": pt_name(pt_of(c.src16, c.nc)), "dst": pt_name(pt_of(c.dst16, c.nc)), "inplace": c.inplace, "inputs": "all component values, alpha at every row position (widths 1..=9)"}),
        |c, stats, viols| {
            stats.nontrivial(&json!([c.mapper, c.forward, c.src16, c.dst16, c.nc, c.inplace]));
            let mp: &PixelComponentMapper = &mappers[c.mapper as usize];
            let nc = c.nc as usize;
            let f: fn(f64) -> f64 = match (c.mapper, c.forward) {
                (0, true) => srgb_to_linear,
                (0, false) => linear_to_srgb,
                (_, true) => gamma_to_linear,
                (_, false) => linear_to_gamma,
            };
            let max_in = if c.src16 { 65535.0 } else { 255.0 };
            let max_out = if c.dst16 { 65535.0 } else { 255.0 };
            let has_alpha = nc == 2 || nc == 4;
            let mut table: Vec<Option<u64>> = vec![None; if c.src16 { 65536 } else { 256 }];
            for width in 1..=9usize {
                let (comps, w, h) = ramp(c.src16, nc, width);
                let src = to_image(&comps, c.src16, c.nc, w, h);
                let out: Vec<u64> = if c.inplace {
                    let mut img = to_image(&comps, c.src16, c.nc, w, h);
                    let r = if c.forward { mp.forward_map_inplace(&mut img) } else { mp.backward_map_inplace(&mut img) };
                    if let Err(e) = r {
                        viols.push(Viol::new("unexpected_error", format!("{:?}", e)));
                        return;
                    }
                    from_image(&img, c.dst16)
                } else {
                    let mut dst = Image::new(w as u32, h as u32, pt_of(c.dst16, c.nc));
                    let r = if c.forward { mp.forward_map(&src, &mut dst) } else { mp.backward_map(&src, &mut dst) };
                    if let Err(e) = r {
                        viols.push(Viol::new("unexpected_error", format!("{:?}", e)));
                        return;
                    }
                    // the same two-image mapping through windows: source a CroppedImageMut (odd widths) or CroppedImage at an
                    // off-diagonal position of a bigger image, destination a CroppedImageMut inside its own parent
                    if width % 2 == 1 || width == 4 {
                        use firv::containers::{image_with_window, window_of_image};
                        let (w32, h32) = (w as u32, h as u32);
                        let mut sparent = image_with_window(pt_of(c.src16, c.nc), src.buffer(), w32, h32, 3, 1, w32 + 4, h32 + 2, 0x5a);
                        let zero = vec![0u8; w * h * pt_of(c.dst16, c.nc).size()];
                        let mut dparent = image_with_window(pt_of(c.dst16, c.nc), &zero, w32, h32, 1, 2, w32 + 3, h32 + 4, 0xa5);
                        let r = {
                            let mut dwin = CroppedImageMut::new(&mut dparent, 1, 2, w32, h32).unwrap();
                            if width % 2 == 1 {
                                let swin = CroppedImageMut::new(&mut sparent, 3, 1, w32, h32).unwrap();
                                if c.forward { mp.forward_map(&swin, &mut dwin) } else { mp.backward_map(&swin, &mut dwin) }
                            } else {
                                let swin = CroppedImage::new(&sparent, 3, 1, w32, h32).unwrap();
                                if c.forward { mp.forward_map(&swin, &mut dwin) } else { mp.backward_map(&swin, &mut dwin) }
                            }
                        };
                        stats.count("mappings_through_windows", 1);
                        let (wb, clean) = window_of_image(&dparent, w32, h32, 1, 2, 0xa5);
                        if r.is_err() || wb != dst.buffer() || !clean {
                            viols.push(Viol::new("mapping_depends_on_container", format!("row width {}: {:?}; mapping through cropped windows (source {}) differs from the mapping of plain images{}", width, r, if width % 2 == 1 { "CroppedImageMut" } else { "CroppedImage" }, if clean { "" } else { " / the parent changed outside the window" })).sig(json!({"clause": "container"})));
                            return;
                        }
                    }
                    from_image(&dst, c.dst16)
                };
                for (i, (&v, &o)) in comps.iter().zip(out.iter()).enumerate() {
                    let ch = i % nc;
                    stats.count("components_checked", 1);
                    if has_alpha && ch == nc - 1 {
                        // alpha: only depth-converted, at every position within the row
                        if o != depth_convert(v, c.src16, c.dst16) {
                            viols.push(Viol::new("alpha_not_depth_converted", format!("row width {} pixel {}: alpha {} -> {}, depth conversion gives {}", width, i / nc, v, o, depth_convert(v, c.src16, c.dst16))).sig(json!({"clause": "alpha"})));
                            return;
                        }
                        stats.seen("alpha_row_positions", (i / nc) % width * 10 + width);
                        continue;
                    }
                    // table entry: the same input must always give the same output
                    match table[v as usize] {
                        None => table[v as usize] = Some(o),
                        Some(t) if t != o => {
                            viols.push(Viol::new("mapping_depends_on_position", format!("value {} maps to {} and to {}", v, t, o)).sig(json!({"clause": "table"})));
                            return;
                        }
                        _ => {}
                    }
                }
            }
            // the table against the transfer function
            let mut prev = 0u64;
            for (v, t) in table.iter().enumerate() {
                let Some(o) = *t else { continue };
                let exact = f(v as f64 / max_in) * max_out;
                let want = exact.round().clamp(0.0, max_out);
                let tie_slack = (exact - exact.floor() - 0.5).abs() <= 1e-4 * max_out;
                let ok = o as f64 == want || (tie_slack && (o as f64 - exact).abs() <= 0.5 + 1e-4 * max_out);
                if !ok {
                    viols.push(Viol::new("table_entry_wrong", format!("input {} -> {}, transfer function gives {} (rounds to {})", v, o, exact, want)).sig(json!({"clause": "value"})));
                    return;
                }
                if o < prev {
                    viols.push(Viol::new("not_monotone", format!("input {} -> {} but input {} -> {}", v - 1, prev, v, o)).sig(json!({"clause": "monotone"})));
                    return;
                }
                prev = o;
            }
            if table[0] != Some(0) || *table.last().unwrap() != Some(max_out as u64) {
                viols.push(Viol::new("endpoint_not_fixed", format!("0 -> {:?}, max -> {:?}", table[0], table.last().unwrap())).sig(json!({"clause": "endpoints"})));
            }
        },
    );
    // sRGB 8 -> 16 -> 8 round trip
    if ctx.shard == 0 && ctx.only.is_none() {
        let mp = &mappers[0];
        let comps: Vec<u64> = (0..256).collect();
        let src = to_image(&comps, false, 1, 256, 1);
        let mut lin = Image::new(256, 1, PixelType::U16);
        let mut back = Image::new(256, 1, PixelType::U8);
        mp.forward_map(&src, &mut lin).unwrap();
        mp.backward_map(&lin, &mut back).unwrap();
        ctx.stats.count("roundtrip_values_checked", 256);
        if back.buffer() != src.buffer() {
            let i = (0..256).find(|&i| back.buffer()[i] != src.buffer()[i]).unwrap();
            let v = Viol::new("srgb_roundtrip_loses_value", format!("8-bit sRGB {} -> 16-bit linear -> {}", i, back.buffer()[i])).sig(json!({"clause": "roundtrip"}));
            ctx.violation(u64::MAX - 1, &json!({"roundtrip": "sRGB 8->16->8"}), v);
        }
    }
    let _ = (U8::default(), MappingError::DifferentDimensions);
}

fn run_errors(ctx: &mut Ctx) {
    // mismatched sizes / component counts / unsupported types are rejected and the destination is untouched
    let mp = fr::create_srgb_mapper();
    let total = 13 * 13;
    ctx.drive(
        total,
        |_, idx| Some((ALL_PT[(idx % 13) as usize], ALL_PT[(idx / 13) as usize])),
        |c| json!({"src": pt_name(c.0), "dst": pt_name(c.1)}),
        |&(s, d), stats, viols| {
            stats.nontrivial(&json!([pt_name(s), pt_name(d)]));
            let int8_16 = |p: PixelType| matches!(pt_kind(p), CompKind::U8 | CompKind::U16);
            let compatible = int8_16(s) && int8_16(d) && pt_nc(s) == pt_nc(d);
            for (sw, sh, dw, dh) in [(3u32, 2u32, 3u32, 2u32), (3, 2, 2, 3), (3, 2, 3, 3), (0, 3, 3, 3), (3, 3, 3, 0), (0, 0, 0, 0), (0, 3, 0, 3), (0, 3, 3, 0), (3, 0, 3, 0), (0, 2, 0, 3)] {
                let src = Image::new(sw, sh, s);
                let mut dst = Image::new(dw, dh, d);
                for b in dst.buffer_mut().iter_mut() {
                    *b = 0xA5;
                }
                let before = dst.buffer().to_vec();
                let r = mp.forward_map(&src, &mut dst);
                stats.count("error_path_calls", 1);
                // empty images are no exception: mismatched sizes or component counts are rejected
                let should_ok = compatible && (dw, dh) == (sw, sh);
                if r.is_ok() != should_ok {
                    viols.push(Viol::new("wrong_acceptance", format!("{} {}x{} -> {} {}x{}: {:?}", pt_name(s), sw, sh, pt_name(d), dw, dh, r)).sig(json!({"clause": "errors"})));
                }
                if r.is_err() && dst.buffer() != &before[..] {
                    viols.push(Viol::new("destination_touched_by_failed_call", format!("{} -> {} {}x{}", pt_name(s), pt_name(d), dw, dh)).sig(json!({"clause": "errors"})));
                }
            }
            let mut img = Image::new(2, 2, s);
            let r = mp.forward_map_inplace(&mut img);
            if r.is_ok() != int8_16(s) {
                viols.push(Viol::new("wrong_acceptance", format!("in-place {}: {:?}", pt_name(s), r)).sig(json!({"clause": "errors"})));
            }
        },
    );
}
