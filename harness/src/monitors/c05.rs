//! C05: a call writes every destination pixel and nothing else.
use crate::c13::{describe, gen_ccase, CCase};
use firv::containers::*;
use firv::content::*;
use firv::exec::*;
use firv::fr;
use firv::gen::*;
use firv::px::*;
use firv::rng::Rng;
use firv::run::*;
use firv::serde_json::{json, Value};
use firv::spec::*;
use firv::{with_alpha_px, with_dyn_dst, with_dyn_src, with_px, with_typed_dst, with_typed_src};
use fr::pixels::*;
use fr::{MulDiv, PixelComponentMapper, PixelType};
use std::sync::OnceLock;

fn mappers() -> &'static (PixelComponentMapper, PixelComponentMapper) {
    static M: OnceLock<(PixelComponentMapper, PixelComponentMapper)> = OnceLock::new();
    M.get_or_init(|| (fr::create_srgb_mapper(), fr::create_gamma_22_mapper()))
}

/// Two-run sentinel differencing. `run` performs the operation from `sb` into `db`.
/// `init`: for in-place operations the image content placed in the destination before each run.
pub fn two_run<S: Px, D: Px>(
    src_px: &[S],
    (sw, sh, sp): (u32, u32, Place),
    (dw, dh, dp): (u32, u32, Place),
    init: Option<&[D]>,
    expect_untouched: bool,
    what: &str,
    run: impl Fn(&Backing<S>, &mut Backing<D>) -> Result<(), String>,
    stats: &mut Stats,
    viols: &mut Vec<Viol>,
) {
    const PA: u64 = 0x5EED_0A0A;
    const PB: u64 = 0x5EED_0A0A | COMPLEMENT;
    let mut sb = Backing::<S>::new(sp, sw, sh, if (sw + sh + dw) % 3 == 0 { 0x7777 | NONFINITE } else { 0x7777 });
    sb.put(src_px);
    let src_before = S::bits_of(&sb.buf);
    let mut results: Vec<(Result<(), String>, Vec<D>, Option<usize>)> = Vec::new();
    for pat in [PA, PB] {
        let mut db = Backing::<D>::new(dp, dw, dh, pat);
        if let Some(init) = init {
            db.put(init);
        }
        let r = run(&sb, &mut db);
        let outside = db.first_outside_change(pat);
        results.push((r, db.view_pixels(), outside));
    }
    let sig = |k: &str| json!({"what": what, "check": k, "dst_pt": D::NAME});
    if S::bits_of(&sb.buf) != src_before {
        viols.push(Viol::new("source_modified", format!("{}: the source buffer changed", what)).sig(sig("src")));
    }
    for (k, (_, _, outside)) in results.iter().enumerate() {
        if let Some(i) = outside {
            let pw = dp.pw.max(1) as usize;
            viols.push(
                Viol::new("write_outside_destination", format!("{}: run {}: backing pixel {} (x={}, y={}) outside the {}x{} view at ({},{}) of a {}x{}+{} parent changed", what, k, i, i % pw, i / pw, dw, dh, dp.left, dp.top, dp.pw, dp.ph, dp.tail))
                    .sig(sig("outside")),
            );
            break;
        }
    }
    let (ra, rb) = (&results[0], &results[1]);
    if ra.0.is_ok() != rb.0.is_ok() {
        viols.push(Viol::new("outcome_depends_on_destination_content", format!("{}: {:?} vs {:?}", what, ra.0, rb.0)).sig(sig("outcome")));
        return;
    }
    let n = dw as usize * dh as usize;
    let untouched = |pat: u64, px: &[D]| -> bool {
        let db = Backing::<D>::new(dp, dw, dh, pat);
        let expect = match init {
            Some(i) => i.to_vec(),
            None => db.view_pixels(),
        };
        D::bits_of(px) == D::bits_of(&expect)
    };
    if ra.0.is_err() {
        stats.count("erroring_calls", 1);
        if !(untouched(PA, &ra.1) && untouched(PB, &rb.1)) {
            viols.push(Viol::new("destination_touched_by_failed_call", format!("{}: returned {:?} but the destination changed", what, ra.0)).sig(sig("err_untouched")));
        }
        return;
    }
    if n == 0 || expect_untouched {
        // a dimension (of the destination or of the crop box) is zero: Ok, and nothing may be written
        stats.count("zero_sized_calls", 1);
        if !(untouched(PA, &ra.1) && untouched(PB, &rb.1)) {
            viols.push(Viol::new("destination_touched_by_zero_sized_call", format!("{}: a dimension is zero but the destination changed", what)).sig(sig("zero_untouched")));
        }
        return;
    }
    stats.count("destination_pixels_checked", n as u64);
    if D::bits_of(&ra.1) != D::bits_of(&rb.1) {
        let i = (0..n).find(|&i| D::bits_of(&[ra.1[i]]) != D::bits_of(&[rb.1[i]])).unwrap();
        viols.push(
            Viol::new("stale_destination_pixel", format!("{}: destination pixel {} (x={}, y={}) depends on what the destination held before: {:?} vs {:?}", what, i, i % dw as usize, i / dw as usize, ra.1[i], rb.1[i]))
                .sig(sig("stale")),
        );
    }
}

pub enum Extra {
    /// mapper: 0 srgb / 1 gamma, forward?, in place?, (src,dst) pixel type pair index
    Map(u8, bool, bool, usize),
    /// change_type: pair index, typed entry point?
    Change(usize, bool),
    /// resize with a zero dimension or an invalid crop (must leave the destination untouched)
    Degenerate(u8),
}

pub struct Case5 {
    cc: CCase,
    extra: Option<Extra>,
}

const MAP_PAIRS: [(PixelType, PixelType); 9] = [
    (PixelType::U8, PixelType::U8),
    (PixelType::U8, PixelType::U16),
    (PixelType::U16, PixelType::U8),
    (PixelType::U16x2, PixelType::U16x2),
    (PixelType::U8x2, PixelType::U16x2),
    (PixelType::U8x4, PixelType::U8x4),
    (PixelType::U16x4, PixelType::U8x4),
    (PixelType::U8x3, PixelType::U16x3),
    (PixelType::U16x3, PixelType::U16x3),
];
const CHANGE_PAIRS: [(PixelType, PixelType); 8] = [
    (PixelType::U8, PixelType::I32),
    (PixelType::I32, PixelType::F32),
    (PixelType::F32, PixelType::U16),
    (PixelType::U16x4, PixelType::F32x4),
    (PixelType::F32x3, PixelType::U8x3),
    (PixelType::U8x2, PixelType::U8x2),
    (PixelType::I32, PixelType::U8),
    (PixelType::F32, PixelType::I32),
];

pub fn run(ctx: &mut Ctx) {
    let mut o = GenOpts::conv_all(&ALL_PT);
    o.alpha_mode = 2;
    o.nearest = true;
    o.max_side = 40;
    o.strip_max = 300;
    let total = ctx.n;
    let seed = ctx.seed;
    let threads_step = ctx.sub == "threads";
    if threads_step {
        assert!(firv::pool::enabled(), "the threads step needs the rayon feature");
        // bigger destinations so that bands exist
        o.max_side = 120;
    }
    ctx.drive(
        total,
        |_, idx| {
            let mut cc = gen_ccase(seed, "C05", idx, &o, false);
            let mut rng = Rng::for_case(seed, "C05x", idx);
            if (cc.op == 1 || cc.op == 2) && rng.chance(1, 6) {
                // two-image alpha operation on images of different size (width only, height only, both): whatever the call
                // answers, an Ok must have written every destination pixel and an error none
                match rng.below(3) {
                    0 => cc.c.dw = (cc.c.sw as i64 + *rng.pick(&[-2i64, -1, 1, 2, 5])).max(1) as u32,
                    1 => cc.c.dh = (cc.c.sh as i64 + *rng.pick(&[-2i64, -1, 1, 2, 5])).max(1) as u32,
                    _ => {
                        cc.c.dw = cc.c.sw + 1;
                        cc.c.dh = (cc.c.sh as i64 + *rng.pick(&[-1i64, 1])).max(1) as u32;
                    }
                }
                cc.dp = gen_place(&mut rng, cc.c.dw, cc.c.dh, cc.dk.is_crop(), false);
            }
            if cc.op == 0 && rng.chance(1, 40) && cc.c.sw > 0 && cc.c.sh > 0 {
                // a valid crop box of almost no extent: still a resize that has to fill the destination
                let t = |rng: &mut Rng| *rng.pick(&[1e-17f64, 2.2e-16, 1e-20, 1e-100, 1e-300, 5e-324]);
                let (w, h) = (cc.c.sw as f64, cc.c.sh as f64);
                let (l, tp) = ((rng.unit() * w).min(pred(w)), (rng.unit() * h).min(pred(h)));
                let cw = if rng.chance(2, 3) { t(&mut rng) } else { (w - l) * rng.unit().max(0.01) };
                let ch = if rng.chance(2, 3) { t(&mut rng) } else { (h - tp) * rng.unit().max(0.01) };
                if l + cw <= w && tp + ch <= h {
                    cc.c.crop = Crop::Box([l, tp, cw, ch]);
                }
            }
            let extra = match idx % 8 {
                6 => {
                    let inplace = rng.chance(1, 3);
                    let pair = rng.below(MAP_PAIRS.len() as u64) as usize;
                    let pair = if inplace { *rng.pick(&[0usize, 3, 5, 8]) } else { pair };
                    cc.c.pt = MAP_PAIRS[pair].0;
                    cc.c.content = gen_content(&mut rng, pt_kind(cc.c.pt));
                    cc.dk = *rng.pick(&[DstKind::DynImage, DstKind::DynCropMut]);
                    cc.sk = if cc.dk == DstKind::DynImage { *rng.pick(&[SrcKind::DynRef, SrcKind::DynCrop]) } else { SrcKind::DynRef };
                    cc.op = 0;
                    Some(Extra::Map(rng.below(2) as u8, rng.chance(1, 2), inplace, pair))
                }
                7 => {
                    let pair = rng.below(CHANGE_PAIRS.len() as u64) as usize;
                    let typed = rng.chance(1, 2);
                    cc.c.pt = CHANGE_PAIRS[pair].0;
                    cc.c.content = gen_content(&mut rng, pt_kind(cc.c.pt));
                    if typed {
                        cc.dk = *rng.pick(&[DstKind::Typed, DstKind::CropMut, DstKind::NestedMut, DstKind::UserMut]);
                        cc.sk = *rng.pick(&[SrcKind::Ref, SrcKind::Crop, SrcKind::User]);
                    } else {
                        cc.dk = *rng.pick(&[DstKind::DynImage, DstKind::DynCropMut]);
                        cc.sk = if cc.dk == DstKind::DynImage { *rng.pick(&[SrcKind::DynRef, SrcKind::DynCrop]) } else { SrcKind::DynRef };
                    }
                    cc.op = 0;
                    Some(Extra::Change(pair, typed))
                }
                5 if idx % 40 == 5 => {
                    cc.op = 0;
                    let k = rng.below(5) as u8;
                    if k < 2 || !pair_supported(cc.sk, cc.dk) {
                        // zero-sized destination: plain containers (a zero-sized cropped view cannot be placed everywhere)
                        cc.sk = SrcKind::Ref;
                        cc.dk = DstKind::Typed;
                    }
                    match k {
                        0 => cc.c.dw = 0,
                        1 => cc.c.dh = 0,
                        2 => cc.c.crop = Crop::Box([0.0, 0.0, 0.0, cc.c.sh as f64]),
                        3 => cc.c.crop = Crop::Box([0.0, 0.0, cc.c.sw as f64 + 1.0, cc.c.sh as f64]),
                        _ => cc.c.crop = Crop::Box([-1.0, 0.0, 1.0, 1.0]),
                    }
                    Some(Extra::Degenerate(k))
                }
                _ => None,
            };
            if extra.is_some() {
                if let Some(Extra::Map(..)) | Some(Extra::Change(..)) = extra {
                    cc.c.dw = cc.c.sw;
                    cc.c.dh = cc.c.sh;
                    cc.c.crop = Crop::None;
                    cc.c.alpha = if pt_has_alpha(cc.c.pt) { Some(gen_alpha_pat(&mut rng)) } else { None };
                }
                cc.sp = gen_place(&mut rng, cc.c.sw, cc.c.sh, cc.sk.is_crop(), false);
                cc.dp = gen_place(&mut rng, cc.c.dw, cc.c.dh, cc.dk.is_crop(), false);
            }
            Some(Case5 { cc, extra })
        },
        |k| {
            let mut v: Value = describe(&k.cc);
            match &k.extra {
                Some(Extra::Map(m, f, i, p)) => {
                    v["op"] = json!({"mapper": if *m == 0 { "srgb" } else { "gamma22" }, "forward": f, "inplace": i, "dst_pixel_type": pt_name(MAP_PAIRS[*p].1)})
                }
                Some(Extra::Change(p, t)) => v["op"] = json!({"change_type_to": pt_name(CHANGE_PAIRS[*p].1), "typed_entry": t}),
                Some(Extra::Degenerate(k)) => v["op"] = json!({"degenerate_resize": k}),
                None => {}
            }
            v
        },
        |k, stats, viols| {
            let cc = &k.cc;
            // threads step: the same calls inside rayon pools of 1, 2, 3, 8 threads
            let threads = if threads_step { [1usize, 2, 3, 8][(cc.c.sw as usize + cc.c.dh as usize) % 4] } else { 0 };
            if threads_step {
                stats.seen("thread_pool_sizes", threads);
            }
            let body = |stats: &mut Stats, viols: &mut Vec<Viol>| match &k.extra {
                None | Some(Extra::Degenerate(_)) => {
                    if cc.op == 0 {
                        with_px!(cc.c.pt, P => exec_resize::<P>(cc, stats, viols))
                    } else {
                        with_alpha_px!(cc.c.pt, P => exec_alpha::<P>(cc, stats, viols))
                    }
                }
                Some(Extra::Map(m, f, i, p)) => exec_map(cc, *m, *f, *i, *p, stats, viols),
                Some(Extra::Change(p, t)) => exec_change(cc, *p, *t, stats, viols),
            };
            if threads_step {
                firv::pool::install(threads, || body(stats, viols))
            } else {
                body(stats, viols)
            }
        },
    );
}

fn exec_resize<P: Px>(cc: &CCase, stats: &mut Stats, viols: &mut Vec<Viol>) {
    let c = &cc.c;
    let src = make_pixels::<P>(c.sw, c.sh, &c.content, c.alpha.as_ref());
    let opts = c.options();
    stats.seen("resize_container_pairs", format!("{:?}->{:?}", cc.sk, cc.dk));
    stats.seen("algorithms", c.alg.short());
    stats.nontrivial(&describe(cc));
    let what = format!("resize {:?}->{:?} {} {}", cc.sk, cc.dk, cc.ext.name(), c.alg.short());
    two_run::<P, P>(
        &src,
        (c.sw, c.sh, cc.sp),
        (c.dw, c.dh, cc.dp),
        None,
        {
            let cb = c.crop_box();
            cb[2] == 0.0 || cb[3] == 0.0
        },
        &what,
        |sb, db| {
            let mut r = resizer(cc.ext);
            resize_through::<P>(&mut r, sb, cc.sk, db, cc.dk, &opts).map_err(|e| format!("{:?}", e))
        },
        stats,
        viols,
    );
}

fn exec_alpha<P: Px>(cc: &CCase, stats: &mut Stats, viols: &mut Vec<Viol>) {
    let c = &cc.c;
    let src = make_pixels::<P>(c.sw, c.sh, &c.content, c.alpha.as_ref());
    let mut md = MulDiv::new();
    unsafe { md.set_cpu_extensions(cc.ext.to_fr()) };
    let divide = cc.op == 2 || cc.op == 4;
    let inplace = cc.op >= 3;
    stats.seen("alpha_paths", format!("{}:{:?}->{:?}", cc.op, cc.sk, cc.dk));
    stats.nontrivial(&describe(cc));
    let what = format!("alpha op {} {:?}->{:?} {}", cc.op, cc.sk, cc.dk, cc.ext.name());
    let md = &md;
    if !inplace && (c.dw, c.dh) != (c.sw, c.sh) {
        stats.count("alpha_calls_with_different_sizes", 1);
    }
    let (dw, dh) = if inplace { (c.sw, c.sh) } else { (c.dw, c.dh) };
    two_run::<P, P>(
        &src,
        (c.sw, c.sh, cc.sp),
        (dw, dh, cc.dp),
        if inplace { Some(&src) } else { None },
        false,
        &what,
        |sb, db| {
            if inplace {
                if cc.dk.is_dyn() {
                    with_dyn_dst!(P, db, cc.dk, |d| (if divide { md.divide_alpha_inplace(&mut d) } else { md.multiply_alpha_inplace(&mut d) }).map_err(|e| format!("{:?}", e)))
                } else {
                    with_typed_dst!(P, db, cc.dk, |d| (if divide { md.divide_alpha_inplace_typed(&mut d) } else { md.multiply_alpha_inplace_typed(&mut d) }).map_err(|e| format!("{:?}", e)))
                }
            } else if cc.dk.is_dyn() {
                with_dyn_src!(P, sb, cc.sk, |s| with_dyn_dst!(P, db, cc.dk, |d| (if divide { md.divide_alpha(&s, &mut d) } else { md.multiply_alpha(&s, &mut d) }).map_err(|e| format!("{:?}", e))))
            } else {
                with_typed_src!(P, sb, cc.sk, |s| with_typed_dst!(P, db, cc.dk, |d| (if divide { md.divide_alpha_typed(&s, &mut d) } else { md.multiply_alpha_typed(&s, &mut d) }).map_err(|e| format!("{:?}", e))))
            }
        },
        stats,
        viols,
    );
}

fn exec_map(cc: &CCase, m: u8, forward: bool, inplace: bool, pair: usize, stats: &mut Stats, viols: &mut Vec<Viol>) {
    macro_rules! go {
        ($s:ty, $d:ty) => {
            map_typed::<$s, $d>(cc, m, forward, inplace, stats, viols)
        };
    }
    match pair {
        0 => go!(U8, U8),
        1 => go!(U8, U16),
        2 => go!(U16, U8),
        3 => go!(U16x2, U16x2),
        4 => go!(U8x2, U16x2),
        5 => go!(U8x4, U8x4),
        6 => go!(U16x4, U8x4),
        7 => go!(U8x3, U16x3),
        _ => go!(U16x3, U16x3),
    }
}

fn map_typed<S: Px, D: Px>(cc: &CCase, m: u8, forward: bool, inplace: bool, stats: &mut Stats, viols: &mut Vec<Viol>) {
    let c = &cc.c;
    let src = make_pixels::<S>(c.sw, c.sh, &c.content, c.alpha.as_ref());
    let mp = if m == 0 { &mappers().0 } else { &mappers().1 };
    stats.seen("mapper_paths", format!("{}{}{}:{}->{} {:?}->{:?}", m, forward as u8, inplace as u8, S::NAME, D::NAME, cc.sk, cc.dk));
    stats.nontrivial(&json!([describe(cc), m, forward, inplace, D::NAME]));
    let what = format!("mapper {} forward={} inplace={} {}->{} {:?}->{:?}", m, forward, inplace, S::NAME, D::NAME, cc.sk, cc.dk);
    if inplace {
        // S == D for the in-place pairs
        let init: Vec<D> = make_pixels::<D>(c.sw, c.sh, &c.content, c.alpha.as_ref());
        two_run::<S, D>(
            &src,
            (c.sw, c.sh, cc.sp),
            (c.sw, c.sh, cc.dp),
            Some(&init),
            false,
            &what,
            |_sb, db| with_dyn_dst!(D, db, cc.dk, |d| (if forward { mp.forward_map_inplace(&mut d) } else { mp.backward_map_inplace(&mut d) }).map_err(|e| format!("{:?}", e))),
            stats,
            viols,
        );
    } else {
        two_run::<S, D>(
            &src,
            (c.sw, c.sh, cc.sp),
            (c.sw, c.sh, cc.dp),
            None,
            false,
            &what,
            |sb, db| with_dyn_src!(S, sb, cc.sk, |s| with_dyn_dst!(D, db, cc.dk, |d| (if forward { mp.forward_map(&s, &mut d) } else { mp.backward_map(&s, &mut d) }).map_err(|e| format!("{:?}", e)))),
            stats,
            viols,
        );
    }
}

fn exec_change(cc: &CCase, pair: usize, typed: bool, stats: &mut Stats, viols: &mut Vec<Viol>) {
    macro_rules! go {
        ($s:ty, $d:ty) => {
            change_typed::<$s, $d>(cc, typed, stats, viols)
        };
    }
    match pair {
        0 => go!(U8, I32),
        1 => go!(I32, F32),
        2 => go!(F32, U16),
        3 => go!(U16x4, F32x4),
        4 => go!(F32x3, U8x3),
        5 => go!(U8x2, U8x2),
        6 => go!(I32, U8),
        _ => go!(F32, I32),
    }
}

fn change_typed<S: Px, D: Px>(cc: &CCase, typed: bool, stats: &mut Stats, viols: &mut Vec<Viol>)
where
    D: fr::pixels::InnerPixel<CountOfComponents = <S as fr::pixels::InnerPixel>::CountOfComponents>,
    <S as fr::pixels::InnerPixel>::Component: fr::pixels::IntoPixelComponent<<D as fr::pixels::InnerPixel>::Component>,
{
    let c = &cc.c;
    let src = make_pixels::<S>(c.sw, c.sh, &c.content, c.alpha.as_ref());
    stats.seen("change_type_paths", format!("{}:{}->{} {:?}->{:?}", typed as u8, S::NAME, D::NAME, cc.sk, cc.dk));
    stats.nontrivial(&json!([describe(cc), typed, D::NAME]));
    let what = format!("change_type typed={} {}->{} {:?}->{:?}", typed, S::NAME, D::NAME, cc.sk, cc.dk);
    two_run::<S, D>(
        &src,
        (c.sw, c.sh, cc.sp),
        (c.sw, c.sh, cc.dp),
        None,
        false,
        &what,
        |sb, db| {
            if typed {
                with_typed_src!(S, sb, cc.sk, |s| with_typed_dst!(D, db, cc.dk, |d| fr::change_type_of_pixel_components_typed(&s, &mut d).map_err(|e| format!("{:?}", e))))
            } else {
                with_dyn_src!(S, sb, cc.sk, |s| with_dyn_dst!(D, db, cc.dk, |d| fr::change_type_of_pixel_components(&s, &mut d).map_err(|e| format!("{:?}", e))))
            }
        },
        stats,
        viols,
    );
}
