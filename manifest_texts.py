TEXTS = {}
NOT_APPLICABLE = []

TEXTS["C01"] = {
    "text": "Every destination sample of generated resizes (all 13 pixel types, 3 back-ends, 7 filters x 3 convolution-type "
            "algorithms, all crop kinds, extreme contents) is compared with an independent f64 reference resampler under a "
            "per-sample analytic error bound that is attained (worst observed error/bound 0.99-1.00), so a one-unit bias, a "
            "shifted window or a wrong kernel constant falls outside it. Some cases are judged on a Resizer that has just served the sibling "
            "algorithm, and a pool step repeats the workload with the library's rayon code in a 3-thread pool. Held on the cases executed; "
            "not a proof for unexecuted inputs.",
    "design_ref": "DESIGN.md section 2, C01",
    "note": "Trusted: the reference model (harness/src/refmodel.rs, written from the property text) and its bound; the "
            "hook H1 only supplies coverage evidence. NEON/WASM not executed.",
    "technique": "runtime differential monitoring against an f64 reference model with per-sample error bound, under rel/ASan/debug-assertion builds",
}
TEXTS["C02"] = {
    "text": "The same resize (and the same alpha multiply/divide) is executed on the portable, SSE4.1 and AVX2 back-ends and the outputs "
            "are compared component by component with the allowance the property states (integers bit-equal; 16-bit alpha division +-1; "
            "floats 2 ulp of the summed magnitude). The H1 pass hook proves that every vector-width residue class (window length mod 8, "
            "rows mod 4, row bytes mod 32) and 6+/10+ distinct fixed-point precisions were executed for every pixel type and pass.",
    "design_ref": "DESIGN.md section 2, C02",
    "note": "Differential: a defect shared by all three back-ends is invisible here (C01 covers that). Custom-filter cases outside "
            "the sum|w|<4 envelope are skipped. NEON/WASM not executed.",
    "technique": "runtime differential monitoring between CPU back-ends with hook-measured residue coverage",
}
TEXTS["C07"] = {
    "text": "Metamorphic monitor: pairs of sources that differ only in (finite) colours under alpha = 0 must give identical results; zero "
            "destination alpha implies zero colour; an opaque source gives the alpha-off result; the alpha channel equals plain resampling "
            "(alpha handling off, and the alpha plane resized alone as a one-channel image); the result equals multiply -> resize -> divide; a second "
            "frame written into the same buffer and resized by the same Resizer satisfies the relations too; non-alpha types ignore the option. Checked on all six alpha types x three back-ends over transparent stripes, islands, "
            "borders and single pixels.",
    "design_ref": "DESIGN.md section 2, C07",
    "note": "Geometries where the destination has the size of an integer crop are excluded: C12 demands a bit-exact copy there for every "
            "alpha setting. Non-finite colours under zero alpha are not generated.",
    "technique": "runtime metamorphic monitoring (input pairs, relations between outputs)",
}
TEXTS["C10"] = {
    "text": "Constant images of every 8-bit value and of extreme/mid/random wider values are resized with random and extreme geometries "
            "(kernels of 1..8192 taps judged, up to 65 000 explored) on three back-ends; every destination component must equal the "
            "constant exactly (floats within 1 ulp).",
    "design_ref": "DESIGN.md section 2, C10",
    "note": "Verdict domain limited to kernels <= 8192 taps ('several thousand' in the property).",
    "technique": "runtime monitoring with an exact oracle (constant in, constant out)",
}
TEXTS["C11"] = {
    "text": "Identity-tagged sources are resized with Nearest and every destination pixel is compared bit for bit with the source pixel "
            "under its centre (index formula of the property, either neighbour only inside a stated rounding band). Sub-pixel crops flush "
            "against the right/bottom edge, boxes of almost no extent, strips long in source and destination (extent products beyond 2^32) and "
            "reduction factors k+0.5 for k = 1..640 are dedicated classes; the same workload also runs under AddressSanitizer and Miri so an "
            "out-of-row read is reported even if the value happens to match.",
    "design_ref": "DESIGN.md section 2, C11",
    "note": "The rounding band is 4(n+2) ulp of the coordinate; pixels inside it accept a neighbour.",
    "technique": "runtime monitoring with an index-formula oracle over identity-tagged images, under rel/ASan/Miri",
}
TEXTS["C12"] = {
    "text": "Same-size resizes (integer crop, whole source, fit_into_destination with equal sizes; also over a destination that equals the region "
            "except for the signs of zeros) must return the region bit for bit for every algorithm and alpha setting; when one dimension "
            "matches, each row/column of the result must equal the resize of that row/column alone (row locality, which holds iff nothing "
            "is resampled along the matching axis); SuperSampling with an intermediate of destination size must return the nearest picks.",
    "design_ref": "DESIGN.md section 2, C12",
    "note": "Float locality is judged with C02's allowance; for float alpha-aware resizes only the alpha channel is judged in the locality modes.",
    "technique": "runtime monitoring: exact copy oracle and row-locality differential",
}
TEXTS["C18"] = {
    "text": "For the four non-negative filters every destination component must stay inside the source channel's [min,max] and ordered "
            "image pairs A <= B must give ordered results, exactly for integers and to 1 ulp for floats, on three back-ends with value "
            "ranges anywhere in the component range and kernels up to 8192 taps.",
    "design_ref": "DESIGN.md section 2, C18",
    "note": "Alpha handling off as the property states; kernels > 8192 taps are outside the verdict domain.",
    "technique": "runtime monitoring: range oracle and metamorphic order oracle",
}
TEXTS["C03"] = {
    "text": "Hostile call sequences through every public entry point and every compiled container pair (exact-fit allocations, so that a "
            "sanitizer red zone or Miri allocation bound is flush against the last row) run under AddressSanitizer, a debug-assertion build "
            "(overflow checks, debug_assert!, std's unsafe-precondition checks), Miri with Tree Borrows, and the H1 hook that asserts the "
            "window-inside-source invariants before each kernel; coefficient windows of 10^5+ geometries up to 65 535 per side are checked "
            "without pixel data through the H2 accessor. Panics are tolerated only for custom kernels whose H1 event shows sum|w| >= 4.",
    "design_ref": "DESIGN.md section 2, C03",
    "note": "Sanitizers and Miri judge only executed paths; intra-allocation over-reads are visible through exact-fit placement and the "
            "H1 invariant only. Known finding D13 (sibling &mut views of split_by_*_mut) is reported as KNOWN-FINDING. Miri's 1-aligned Vec<u8> "
            "makes Image::new of 16/32-bit types unusable there (artefact, avoided by the harness). NEON/WASM not executed.",
    "technique": "AddressSanitizer + Miri (Tree Borrows) + debug-assertion build over hostile generated workloads, invariant hook on coefficient windows",
}
TEXTS["C04"] = {
    "text": "Every rectangle (left, top, width, height) up to N+2 on every image up to NxN is passed to the six cropped-view constructors "
            "(exhaustive), plus a u32 boundary pool, 2*10^5 hostile f64 crop boxes through resize, and nine buffer constructors with lengths "
            "and alignments around the requirement and sizes near 2^31/2^32 over short buffers; the outcome must equal an exact predicate "
            "and every accepted view must expose exactly its rectangle of identity tags. Run on the optimised and the debug-assertion build.",
    "design_ref": "DESIGN.md section 2, C04",
    "note": "Zero-area boxes and empty buffers may be accepted or rejected (the property is silent) but never panic. f64 boxes whose exact "
            "and f64-rounded sums disagree (TwoSum) accept either outcome.",
    "technique": "runtime monitoring with an exact-arithmetic acceptance predicate, exhaustive over small geometry",
}
TEXTS["C05"] = {
    "text": "Two-run sentinel differencing: each call is made twice over destination backing stores pre-filled with complementary patterns; "
            "a stale pixel differs between the runs, a stray write changes a sentinel outside the rectangle, a failed or zero-sized call must "
            "leave everything untouched, the source is hashed before/after. Covers resize (incl. boxes of almost no extent), alpha (incl. images of "
            "different size), mapper and change_type calls through all "
            "container pairs and placements, three back-ends, rayon pools of 1/2/3/8 threads, and an ASan build.",
    "design_ref": "DESIGN.md section 2, C05",
    "note": "SuperSampling multiplicity 0 is outside the property (m >= 1) and not generated here.",
    "technique": "runtime monitoring with two-pattern sentinel buffers",
}
TEXTS["C06"] = {
    "text": "All 65 536 8-bit (colour, alpha) pairs at every lane of rows of length 1..40 (exhaustive, every run) and, in the thorough tier, all "
            "2^32 16-bit pairs are pushed through multiply/divide on three back-ends and four entry points and compared with exact integer "
            "arithmetic (round-half-up product; floor/ceil quotient saturated at max; a=0 -> 0; alpha unchanged); float results must equal "
            "single IEEE operations; unsupported pixel types must be rejected. A patterns step puts alphas in runs and in uniform / half-uniform "
            "blocks of 2..16 pixels on rows of every length 1..70 (also in a 3-thread pool on images tall enough to be split).",
    "design_ref": "DESIGN.md section 2, C06",
    "note": "Quick tier samples the 16-bit space (special alphas/colours exhaustively + random blocks).",
    "technique": "runtime monitoring against an exact integer-arithmetic oracle, exhaustive for 8-bit (and 16-bit in thorough)",
}
TEXTS["C08"] = {
    "text": "Resizes and alpha operations are executed in thread pools of 2..32 threads (and more threads than rows) with seeded jitter at "
            "band starts and compared bit for bit with the 1-thread run; strips up to 300 000 pixels long and 10^6 size pairs up to 2^32-1 "
            "exercise the band-count arithmetic; destinations of 4..9 MB with extents no band count divides; cropped, nested, dynamic and "
            "user-defined containers in pools of 2/3/4/8 threads; the H4 hook reports the (axis, parts) splits and distinct schedules actually observed; Miri "
            "with the race detector runs multi-band scenarios, ThreadSanitizer in the thorough tier.",
    "design_ref": "DESIGN.md section 2, C08",
    "note": "Schedules are sampled, not enumerated. Known finding D13 (Miri retag race / Tree Borrows violation in column bands) is reported "
            "as KNOWN-FINDING; the same scenario with the borrow tracker off must be race-free.",
    "technique": "runtime differential monitoring across thread counts with schedule jitter, Miri race detector, ThreadSanitizer (thorough)",
}
TEXTS["C09"] = {
    "text": "Random histories of 40-200 operations (all pixel sizes, growing/shrinking images, alpha on/off, erroring calls, reset, clone, "
            "back-end switches) on long-lived Resizers, plus short histories with big images (intermediates of several MB, a retained buffer "
            "beyond 64 MB); every call is compared bit for bit with the same call on a fresh Resizer. The H3 "
            "scratch hook proves that reuse without growth, growth and the misaligned-head path of align_to_mut (under Miri) were executed.",
    "design_ref": "DESIGN.md section 2, C09",
    "note": "Histories are sampled. The misaligned-head path is only reachable where Vec<u8> is not over-aligned (Miri).",
    "technique": "runtime history differential (reused vs fresh object) with scratch-buffer event log",
}
TEXTS["C13"] = {
    "text": "The same logical resize or alpha operation is executed through plain typed images and through each compiled container pair "
            "(13 source kinds x 8 destination kinds incl. mutable views in the source role and a user-defined view type that leaves the trait's provided methods at their defaults, typed and dynamic entry points) at random placements inside larger parents; the "
            "destination pixels must be bit-identical. Also under ASan.",
    "design_ref": "DESIGN.md section 2, C13",
    "note": "24 of the 104 (source kind, destination kind) pairs are compiled (every source kind with a plain destination, a plain source "
            "with every destination kind, and the matching special pairs); the rest would multiply compile time without new code paths.",
    "technique": "runtime differential monitoring across container kinds and memory layouts",
}
TEXTS["C14"] = {
    "text": "Exhaustive enumeration of every (start, size, parts) on every view size up to 12x12 (34x34 thorough) for nine view kinds (the library's seven and a user-defined view / mutable view that use the "
            "trait's default split implementations) and both axes, with split-of-split (read-only, and on mutable parts read-only and mutable): None exactly when the property says so; parts in order, sizes differing by at most one, each exposing "
            "exactly its band of identity tags; mutable parts write an index-dependent increment and the parent is read back: every band "
            "pixel incremented exactly once, nothing else changed.",
    "design_ref": "DESIGN.md section 2, C14",
    "note": "Pixel-level exactly-once is what is decided here; reference-level aliasing of sibling parts is judged by Miri under C03 (known finding D13).",
    "technique": "exhaustive runtime enumeration with identity tags and write/read-back through the parent",
}
TEXTS["C15"] = {
    "text": "CropBox::fit_src_into_dst_size is called on all size quadruples <= 24 and 10^7 random quadruples up to 65 535 biased to "
            "near-equal aspect ratios; the returned box is checked to be inside the source exactly as the validator judges it, to have the "
            "destination aspect ratio, to span one dimension and to honour the clamped centering; 4*10^4 resizes with fit_into_destination "
            "through the typed and the dynamic entry point (every size quadruple in 1..10 first) must not fail, must equal a resize with that "
            "box given explicitly, and a Nearest resize of coordinate-tagged pixels must show the pixels under the centres of that box.",
    "design_ref": "DESIGN.md section 2, C15",
    "note": "NaN centering excluded as the property states.",
    "technique": "runtime monitoring of a pure function with an arithmetic oracle, exhaustive for small sizes",
}
TEXTS["C16"] = {
    "text": "Every table entry of both mappers, both directions and all four depth pairs is read through the public API (all component "
            "values at every component position, 1..4 components, two-image and in-place) and compared with the f64 transfer function; "
            "monotonicity, endpoints, alpha depth conversion at every row position, sRGB 8->16->8 identity and rejection of mismatched "
            "arguments are checked; two-image mappings also through cropped windows (CroppedImageMut / CroppedImage sources). Exhaustive.",
    "design_ref": "DESIGN.md section 2, C16",
    "note": "A neighbouring integer is accepted within 1e-4*max of a rounding tie because the tables are built in f32.",
    "technique": "exhaustive runtime enumeration against an f64 transfer-function oracle",
}
TEXTS["C17"] = {
    "text": "All 43 supported conversions: integer sources exhaustively, I32/F32 sources on boundary and 6*10^4 random values per block; "
            "monotone, nominal endpoints, saturation of out-of-range floats, widen-then-narrow identity, rejection of mismatched images; the "
            "same values in images 1..9 pixels wide (Image / ImageRef sources) and through cropped windows convert identically.",
    "design_ref": "DESIGN.md section 2, C17",
    "note": "Known finding D14 (U8/U16 -> I32 maximum not mapped to i32::MAX) is reported as KNOWN-FINDING; any other endpoint failure is a violation.",
    "technique": "runtime monitoring with order/endpoint oracles, exhaustive for integer sources",
}
