TEXTS = {}
NOT_APPLICABLE = []

TEXTS["C01"] = {
    "text": "Every destination sample of generated resizes (all 13 pixel types, 3 back-ends, 7 filters x 3 convolution-type "
            "algorithms, all crop kinds, extreme contents) is compared with an independent f64 reference resampler under a "
            "per-sample analytic error bound that is attained (worst observed error/bound 0.99-1.00), so a one-unit bias, a "
            "shifted window or a wrong kernel constant falls outside it. Held on the cases executed; not a proof for "
            "unexecuted inputs.",
    "design_ref": "DESIGN.md section 2, C01",
    "note": "Trusted: the reference model (harness/src/refmodel.rs, written from the property text) and its bound; the "
            "hook H1 only supplies coverage evidence. NEON/WASM not executed.",
    "technique": "runtime differential monitoring against an f64 reference model with per-sample error bound, under rel/ASan/debug-assertion builds",
}
for i in range(2, 19):
    NOT_APPLICABLE.append({"property_id": "C%02d" % i, "reason": "monitor not built yet (work in progress; see DESIGN.md section 2)"})
