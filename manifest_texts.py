TEXTS = {}
NOT_APPLICABLE = []

TEXTS["C01"] = {
    "text": "Every destination sample of generated resizes (all 13 pixel types, 3 back-ends, 7 filters x 3 convolution-type "
            "algorithms, all crop kinds, extreme contents) is compared with an independent f64 reference resampler under a "
            "per-sample analytic error bound that is attained (worst observed error/bound 0.99-1.00), so a one-unit bias, a "
            "shifted window or a wrong kernel constant falls outside it. Held on the cases executed; not a proof for "
            "unexecuted inputs.",
    "design_ref": "DESIGN.md section 2, C01",
    "note": "Trusted: the reference model (harness/src/refmodel.rs, written from the property text) and its bound; the "
            "hook H1 only supplies coverage evidence. NEON/WASM not executed.",
    "technique": "runtime differential monitoring against an f64 reference model with per-sample error bound, under rel/ASan/debug-assertion builds",
}
TEXTS["C02"] = {
    "text": "The same resize (and the same alpha multiply/divide) is executed on the portable, SSE4.1 and AVX2 back-ends and the outputs "
            "are compared component by component with the allowance the property states (integers bit-equal; 16-bit alpha division +-1; "
            "floats 2 ulp of the summed magnitude). The H1 pass hook proves that every vector-width residue class (window length mod 8, "
            "rows mod 4, row bytes mod 32) and 6+/10+ distinct fixed-point precisions were executed for every pixel type and pass.",
    "design_ref": "DESIGN.md section 2, C02",
    "note": "Differential: a defect shared by all three back-ends is invisible here (C01 covers that). Custom-filter cases outside "
            "the sum|w|<4 envelope are skipped. NEON/WASM not executed.",
    "technique": "runtime differential monitoring between CPU back-ends with hook-measured residue coverage",
}
TEXTS["C07"] = {
    "text": "Metamorphic monitor: pairs of sources that differ only in (finite) colours under alpha = 0 must give identical results; zero "
            "destination alpha implies zero colour; an opaque source gives the alpha-off result; the alpha channel equals plain resampling; "
            "non-alpha types ignore the option. Checked on all six alpha types x three back-ends over transparent stripes, islands, "
            "borders and single pixels.",
    "design_ref": "DESIGN.md section 2, C07",
    "note": "Geometries where the destination has the size of an integer crop are excluded: C12 demands a bit-exact copy there for every "
            "alpha setting. Non-finite colours under zero alpha are not generated.",
    "technique": "runtime metamorphic monitoring (input pairs, relations between outputs)",
}
TEXTS["C10"] = {
    "text": "Constant images of every 8-bit value and of extreme/mid/random wider values are resized with random and extreme geometries "
            "(kernels of 1..8192 taps judged, up to 65 000 explored) on three back-ends; every destination component must equal the "
            "constant exactly (floats within 1 ulp).",
    "design_ref": "DESIGN.md section 2, C10",
    "note": "Verdict domain limited to kernels <= 8192 taps ('several thousand' in the property).",
    "technique": "runtime monitoring with an exact oracle (constant in, constant out)",
}
TEXTS["C11"] = {
    "text": "Identity-tagged sources are resized with Nearest and every destination pixel is compared bit for bit with the source pixel "
            "under its centre (index formula of the property, either neighbour only inside a stated rounding band). Sub-pixel crops flush "
            "against the right/bottom edge are a dedicated class; the same workload also runs under AddressSanitizer and Miri so an "
            "out-of-row read is reported even if the value happens to match.",
    "design_ref": "DESIGN.md section 2, C11",
    "note": "The rounding band is 4(n+2) ulp of the coordinate; pixels inside it accept a neighbour.",
    "technique": "runtime monitoring with an index-formula oracle over identity-tagged images, under rel/ASan/Miri",
}
TEXTS["C12"] = {
    "text": "Same-size resizes must return the integer crop region bit for bit for every algorithm and alpha setting; when one dimension "
            "matches, each row/column of the result must equal the resize of that row/column alone (row locality, which holds iff nothing "
            "is resampled along the matching axis); SuperSampling with an intermediate of destination size must return the nearest picks.",
    "design_ref": "DESIGN.md section 2, C12",
    "note": "Float locality is judged with C02's allowance; for float alpha-aware resizes only the alpha channel is judged in the locality modes.",
    "technique": "runtime monitoring: exact copy oracle and row-locality differential",
}
TEXTS["C18"] = {
    "text": "For the four non-negative filters every destination component must stay inside the source channel's [min,max] and ordered "
            "image pairs A <= B must give ordered results, exactly for integers and to 1 ulp for floats, on three back-ends with value "
            "ranges anywhere in the component range and kernels up to 8192 taps.",
    "design_ref": "DESIGN.md section 2, C18",
    "note": "Alpha handling off as the property states; kernels > 8192 taps are outside the verdict domain.",
    "technique": "runtime monitoring: range oracle and metamorphic order oracle",
}
for i in (3, 4, 5, 6, 8, 9, 13, 14, 15, 16, 17):
    NOT_APPLICABLE.append({"property_id": "C%02d" % i, "reason": "monitor not built yet (work in progress; see DESIGN.md section 2)"})
