#!/usr/bin/env python3
"""Writes MANIFEST.json from plans.py and the per-property texts below (kept in one place so the
manifest can never disagree with what ./check runs)."""
import json
import os
import subprocess
import sys

ROOT = os.path.dirname(os.path.abspath(__file__))
sys.path.insert(0, ROOT)
from plans import PLANS  # noqa
from manifest_texts import TEXTS, NOT_APPLICABLE  # noqa

hook_commits = subprocess.run(["git", "-C", "/repo", "log", "--format=%H %s"], capture_output=True, text=True).stdout.splitlines()
hook_commits = [l.split()[0] for l in hook_commits if "verif hooks" in l]

checks = []
for pid in sorted(PLANS):
    if pid not in TEXTS:
        continue
    t = TEXTS[pid]
    checks.append({
        "property_id": pid,
        "quick_cmd": "./check %s --tier quick" % pid,
        "thorough_cmd": "./check %s --tier thorough" % pid,
        "evidence_file": "/verif/evidence/%s.json" % pid,
        "replay_cmd_template": "./check --replay {path}",
        "engine": "firv",
        "level_claimed": {"category": "exploration", "text": t["text"], "design_ref": t["design_ref"]},
        "level_note": t["note"],
        "technique": t["technique"],
    })

manifest = {
    "version": 1,
    "setup_cmd": "./check --build rel dbg asan rel+rayon dbg+rayon miri miri+rayon",
    "hooks": {
        "guard": "cfg(fir_verif)",
        "enable": "RUSTFLAGS=\"--cfg fir_verif\" (set by ./check for every flavour; the harness depends on /repo by path, so every build compiles /repo's current working tree)",
        "baseline_off_cmd": "cd /repo && cargo test --workspace --no-fail-fast --offline",
        "source_commits": hook_commits,
        "add_only": True,
    },
    "engines": [{
        "name": "firv",
        "path": "/verif/harness (Rust crate, binaries firv-core/views/threads/misc) driven by /verif/check (python3)",
        "serves_properties": sorted(p for p in PLANS if p in TEXTS),
        "kind_free_text": "runtime monitoring: the real library executed under generated workloads in optimised, debug-assertion, AddressSanitizer, ThreadSanitizer and Miri builds; oracles = f64 reference model with analytic bound, differential (back-ends, containers, thread counts, fresh vs reused Resizer), metamorphic (alpha, order), exact integer arithmetic, sentinel buffers, invariant hooks and event logs",
    }],
    "checks": checks,
    "not_applicable": NOT_APPLICABLE,
    "notes": "See DESIGN.md. Exit 2 + INCONCLUSIVE line = build failure / watchdog / observation floor not met (never reported as a violation). known_findings.json lists defects recorded rather than repaired.",
}
with open(os.path.join(ROOT, "MANIFEST.json"), "w") as f:
    json.dump(manifest, f, indent=1)
print("wrote MANIFEST.json with %d checks, %d not applicable" % (len(checks), len(NOT_APPLICABLE)))
