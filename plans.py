"""Per-property execution plans: which binary, which build flavours, how many cases, which observation floors.

A step is {flavour, bin, n, [sub], [shards], [args], [env], [timeout], [miriflags]}.
n is the total number of cases of the step (split over its shards).
"""


def step(flavour, bin, n, **kw):
    d = {"flavour": flavour, "bin": bin, "n": n}
    d.update(kw)
    return d


PLANS = {}
FLOORS = {}

PLANS["C01"] = {
    "rule": "stratified (pixel type x pass direction x dst extent 1..40 x kernel length 1..24) then seeded random "
            "resize cases (13 pixel types, 7 filters x Convolution/Interpolation/SuperSampling, valid crops of every "
            "kind, contents random/extreme/checkerboard/impulse), each run on back-ends None/Sse4_1/Avx2 and compared "
            "per sample with the f64 reference model and its analytic bound; non-trivial = a convolution with a kernel "
            "of >= 2 taps is executed on at least one axis; distinct = distinct case descriptor",
    "assumptions": ["the f64 reference model in harness/src/refmodel.rs states the ideal filter of the property",
                    "NEON/WASM kernels are not executable on this host"],
    "quick": [step("rel", "firv-core", 24000), step("asan", "firv-core", 2400)],
    "thorough": [step("rel", "firv-core", 1000000, timeout=7200), step("asan", "firv-core", 60000, timeout=7200),
                 step("dbg", "firv-core", 60000, timeout=7200)],
}
FLOORS["C01"] = {
    "quick": [
        ("all 8 residues of kernel length mod 8 observed by the pass hook", lambda o: len(o["sets"]["observed_window_len_mod8"]) == 8),
        (">= 6 distinct u8 precisions and >= 8 distinct u16 precisions observed", lambda o: len(o["sets"]["precisions_u8"]) >= 6 and len(o["sets"]["precisions_u16"]) >= 8),
        (">= 5000 two-pass cases", lambda o: o["counters"]["two_pass_cases"] >= 5000),
        ("worst error/bound ratio >= 0.9 for every component kind (the bound is attained, it has no slack)",
         lambda o: all(o["maxima"]["worst_error_over_bound_" + k] >= 0.9 for k in ("u8", "u16", "i32", "f32"))),
    ],
}
FLOORS["C01"]["thorough"] = FLOORS["C01"]["quick"]
