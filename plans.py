"""Per-property execution plans: which binary, which build flavours, how many cases, which observation floors.

A step is {flavour, bin, n, [sub], [shards], [args], [env], [timeout], [miriflags]}.
n is the total number of cases of the step (split over its shards).
"""


def step(flavour, bin, n, **kw):
    d = {"flavour": flavour, "bin": bin, "n": n}
    d.update(kw)
    return d


PLANS = {}
FLOORS = {}

PLANS["C01"] = {
    "rule": "stratified (pixel type x pass direction x dst extent 1..40 x kernel length 1..24) then seeded random "
            "resize cases (13 pixel types, 7 filters x Convolution/Interpolation/SuperSampling, valid crops of every "
            "kind, contents random/extreme/checkerboard/impulse), each run on back-ends None/Sse4_1/Avx2 and compared "
            "per sample with the f64 reference model and its analytic bound (every fourth Convolution/Interpolation case on a Resizer that has just "
            "served the sibling algorithm with the same filter and geometry); non-trivial = a convolution with a kernel "
            "of >= 2 taps is executed on at least one axis; distinct = distinct case descriptor",
    "assumptions": ["the f64 reference model in harness/src/refmodel.rs states the ideal filter of the property",
                    "NEON/WASM kernels are not executable on this host"],
    "quick": [step("rel+rayon", "firv-core", 48000, args=["--pool", "3"], tag="pool3", seed_offset=7000), step("rel", "firv-core", 300000), step("asan", "firv-core", 30000), step("dbg", "firv-core", 30000)],
    "thorough": [step("rel+rayon", "firv-core", 480000, args=["--pool", "3"], tag="pool3", seed_offset=7000, timeout=7200), step("rel", "firv-core", 6000000, timeout=7200), step("asan", "firv-core", 300000, timeout=7200),
                 step("dbg", "firv-core", 300000, timeout=7200)],
}
FLOORS["C01"] = {
    "quick": [
        ("all 8 residues of kernel length mod 8 observed by the pass hook", lambda o: len(o["sets"]["observed_window_len_mod8"]) == 8),
        (">= 6 distinct u8 precisions and >= 8 distinct u16 precisions observed", lambda o: len(o["sets"]["precisions_u8"]) >= 6 and len(o["sets"]["precisions_u16"]) >= 8),
        (">= 50000 two-pass cases", lambda o: o["counters"]["two_pass_cases"] >= 50000),
        ("worst error/bound ratio >= 0.9 for every component kind (the bound is attained, it has no slack)",
         lambda o: all(o["maxima"]["worst_error_over_bound_" + k] >= 0.9 for k in ("u8", "u16", "i32", "f32"))),
    ],
}
FLOORS["C01"]["thorough"] = FLOORS["C01"]["quick"]

CONV_ASSUME = ["NEON/WASM kernels are not executable on this host", "back-ends are selected with the unsafe set_cpu_extensions on a host that supports SSE4.1 and AVX2"]

PLANS["C02"] = {
    "rule": "resize: stratified + random cases (13 pixel types, built-in and custom filters, alpha on/off, crops) executed on "
            "None/Sse4_1/Avx2 and compared component by component (integers bit-equal, U16x2/U16x4 alpha-on colours +-1, floats "
            "2 ulp of the summed magnitude); cases whose H1 event shows a window with sum|w| >= 4 are skipped and counted; "
            "muldiv: alpha multiply/divide of rows of every length 1..70 and random lengths, in-place and two-image; "
            "non-trivial = at least one convolution pass ran (resize) / any row (muldiv); distinct = distinct descriptor",
    "assumptions": CONV_ASSUME,
    "quick": [step("rel+rayon", "firv-core", 32000, args=["--pool", "4"], tag="pool4", seed_offset=7000), step("rel", "firv-core", 160000), step("rel", "firv-core", 60000, sub="muldiv")],
    "thorough": [step("rel+rayon", "firv-core", 640000, args=["--pool", "4"], tag="pool4", seed_offset=7000, timeout=7200), step("rel", "firv-core", 10000000, timeout=7200), step("rel", "firv-core", 4000000, sub="muldiv", timeout=7200),
                 step("asan", "firv-core", 400000, timeout=7200)],
}


def _c02_floor(o):
    need = []
    for pt in ["U8", "U8x2", "U8x3", "U8x4", "U16", "U16x2", "U16x3", "U16x4", "I32", "F32", "F32x2", "F32x3", "F32x4"]:
        for d in "hv":
            if len(o["sets"].get("%s_%s_len_mod8" % (pt, d), [])) < 8 or len(o["sets"].get("%s_%s_rows_mod4" % (pt, d), [])) < 4:
                need.append(pt + d)
    return not need


FLOORS["C02"] = {"quick": [
    ("every pixel type x pass direction saw all 8 classes of window length mod 8 and all 4 classes of rows mod 4 (H1 events)", _c02_floor),
    (">= 6 distinct u8 precisions and >= 10 distinct u16 precisions (H1 events)", lambda o: len(o["sets"]["precisions_u8"]) >= 6 and len(o["sets"]["precisions_u16"]) >= 10),
    ("every alpha pixel type saw all 16 classes of row length mod 16 in the muldiv step", lambda o: all(len(o["sets"]["%s_row_len_mod16" % p]) == 16 for p in ["U8x2", "U8x4", "U16x2", "U16x4", "F32x2", "F32x4"])),
]}
FLOORS["C02"]["thorough"] = FLOORS["C02"]["quick"]

PLANS["C07"] = {
    "rule": "random resize cases on the six alpha pixel types (transparent stripes, islands, borders, single pixels, all-zero, low alpha) "
            "with alpha handling on; each run three times per back-end: source A, source B = A with other colours under alpha = 0, and A "
            "with alpha handling off; relations (i) A==B results, (ii) zero alpha => zero colour, (iii) opaque source == alpha-off, "
            "(iv) alpha channel == plain resampling (alpha handling off), (ii)+(vii) again on a second frame written into the same buffer and resized by the same Resizer, (vii) alpha channel == the alpha plane resized alone as a one-channel image of the same component type, (v) non-alpha types unaffected, (vi) alpha-aware resize == multiply_alpha -> plain resize -> "
            "divide_alpha bit for bit; non-trivial = source has both transparent and "
            "non-transparent pixels; geometries where dst size == integer crop (C12: exact copy) are excluded and counted",
    "assumptions": CONV_ASSUME + ["colours under zero alpha are finite (NaN*0 is NaN in any implementation)"],
    "quick": [step("rel+rayon", "firv-core", 32000, args=["--pool", "4"], tag="pool4", seed_offset=7000), step("rel", "firv-core", 120000)],
    "thorough": [step("rel+rayon", "firv-core", 640000, args=["--pool", "4"], tag="pool4", seed_offset=7000, timeout=7200), step("rel", "firv-core", 15000000, timeout=7200), step("asan", "firv-core", 400000, timeout=7200)],
}
FLOORS["C07"] = {"quick": [
    (">= 10000 cases with partial transparency, >= 1000 opaque cases, >= 10^5 zero-alpha destination pixels, >= 10^5 composition checks, >= 10^5 alpha-plane checks",
     lambda o: o["counters"]["cases_with_partial_transparency"] >= 10000 and o["counters"]["opaque_cases"] >= 1000 and o["counters"]["zero_alpha_dst_pixels"] >= 100000 and o["counters"]["composition_checks"] >= 100000 and o["counters"]["alpha_plane_checks"] >= 100000),
]}
FLOORS["C07"]["thorough"] = FLOORS["C07"]["quick"]

PLANS["C10"] = {
    "rule": "constant images (all 256 values for 8-bit in turn; extremes, mid, random for wider types; alpha at maximum when alpha "
            "handling is on) resized with random geometry, every fourth case a strip with an extreme scale (kernel lengths up to "
            "65 000 explored, verdict only for <= 8192 taps); every destination component must equal the constant (floats: 1 ulp); "
            "non-trivial = kernel of >= 2 taps inside the verdict domain",
    "assumptions": CONV_ASSUME,
    "quick": [step("rel+rayon", "firv-core", 32000, args=["--pool", "3"], tag="pool3", seed_offset=7000), step("rel", "firv-core", 160000)],
    "thorough": [step("rel+rayon", "firv-core", 640000, args=["--pool", "3"], tag="pool3", seed_offset=7000, timeout=7200), step("rel", "firv-core", 20000000, timeout=7200), step("asan", "firv-core", 400000, timeout=7200)],
}
FLOORS["C10"] = {"quick": [
    ("all 256 8-bit values used", lambda o: len(o["sets"]["u8_values"]) == 256),
    ("kernel lengths judged up to >= 4096 taps, every power-of-two class 1..4096 seen",
     lambda o: o["maxima"]["kernel_len_max_judged"] >= 4096 and len(o["sets"]["kernel_len_log2"]) >= 13),
]}
FLOORS["C10"]["thorough"] = FLOORS["C10"]["quick"]

PLANS["C11"] = {
    "rule": "identity-tagged sources (neighbouring pixels always differ) resized with Nearest: random sizes, strips, valid crops of every "
            "kind, every eighth case a sub-pixel crop flush against the right/bottom edge, 1x1 sources, alpha handling on for alpha types; "
            "each destination pixel must be bit-identical to the source pixel under its centre (either neighbour when the centre is within "
            "4(n+2) ulp of an integer); every case runs on three back-ends with a fresh Resizer, through a TypedImage source (default row "
            "stepping), and on a Resizer that has just served the same geometry with the crop box moved by one pixel (sliding window); a "
            "class with integer origin and a fractional size whose integer part is the destination size; the edge-flush class also through "
            "all source containers (C13 workload); non-trivial = destination size differs from the crop size",
    "assumptions": CONV_ASSUME,
    "quick": [step("rel+rayon", "firv-core", 32000, args=["--pool", "5"], tag="pool5", seed_offset=7000), step("rel", "firv-core", 160000), step("asan", "firv-core", 16000), step("miri", "firv-core", 320, shards=16, timeout=3000),
              # the edge-flush geometry through cropped / nested / dynamic source containers (their own row stepping)
              step("rel", "firv-views", 48000, sub="nearest_edge", prop_arg="C13"),
              # the same with user-defined views whose row slices are 2 pixels longer than the width (the trait's contract allows it;
              # Nearest honours it - convolution does not, see DESIGN.md section 3)
              step("rel", "firv-views", 24000, sub="nearest_edge", prop_arg="C13", env={"FIRV_USER_PAD": "2"}, tag="padded", seed_offset=3000)],
    "thorough": [step("rel+rayon", "firv-core", 320000, args=["--pool", "5"], tag="pool5", seed_offset=7000, timeout=7200), step("rel", "firv-core", 4000000, timeout=7200), step("asan", "firv-core", 400000, timeout=7200),
                 step("miri", "firv-core", 3200, shards=16, timeout=14000),
                 step("rel", "firv-views", 1000000, sub="nearest_edge", prop_arg="C13", timeout=7200),
                 step("rel", "firv-views", 500000, sub="nearest_edge", prop_arg="C13", env={"FIRV_USER_PAD": "2"}, tag="padded", seed_offset=3000, timeout=7200)],
}
FLOORS["C11"] = {"quick": [
    (">= 5000 sub-pixel edge-flush cases", lambda o: o["counters"]["subpixel_edge_flush_cases"] >= 5000),
    (">= 10^7 pixels checked", lambda o: o["counters"]["pixels_checked"] >= 10 ** 7),
]}
FLOORS["C11"]["thorough"] = FLOORS["C11"]["quick"]

PLANS["C12"] = {
    "rule": "four modes in turn: same size as an integer crop or as the whole source (no crop option, or fit_into_destination with equal sizes; every algorithm incl. Nearest, alpha on/off) must be a bit-exact copy; rows "
            "match / columns match: each row (column) of the result must equal the resize of that row (column) alone; SuperSampling whose "
            "intermediate has the destination size must equal the nearest-neighbour picks (alpha channel only when alpha handling is on); "
            "every case is non-trivial; distinct = distinct descriptor",
    "assumptions": CONV_ASSUME,
    "quick": [step("rel+rayon", "firv-core", 48000, args=["--pool", "3"], tag="pool3", seed_offset=7000), step("rel", "firv-core", 120000)],
    "thorough": [step("rel+rayon", "firv-core", 640000, args=["--pool", "3"], tag="pool3", seed_offset=7000, timeout=7200), step("rel", "firv-core", 30000000, timeout=7200), step("asan", "firv-core", 400000, timeout=7200)],
}
FLOORS["C12"] = {"quick": [
    (">= 10000 cases of each of the four modes", lambda o: all(o["counters"][k] >= 10000 for k in ("same_size", "rows_match", "columns_match", "supersampling_identity"))),
    ("all four algorithm kinds seen", lambda o: all(any(a.startswith(k) for a in o["sets"]["algorithms"]) for k in ("Nearest", "Conv", "Interp", "Super"))),
]}
FLOORS["C12"]["thorough"] = FLOORS["C12"]["quick"]

PLANS["C18"] = {
    "rule": "random images A and B = A + non-negative increments (saturating), value ranges anywhere in the component range, resized "
            "with Box/Bilinear/Hamming/Gaussian x Convolution/Interpolation/SuperSampling, alpha off, kernel lengths <= 8192; every "
            "destination component must lie in the source channel's [min,max] and resize(A) <= resize(B) componentwise (floats: 1 ulp); "
            "non-trivial = kernel of >= 2 taps",
    "assumptions": CONV_ASSUME,
    "quick": [step("rel+rayon", "firv-core", 32000, args=["--pool", "4"], tag="pool4", seed_offset=7000), step("rel", "firv-core", 120000)],
    "thorough": [step("rel+rayon", "firv-core", 320000, args=["--pool", "4"], tag="pool4", seed_offset=7000, timeout=7200), step("rel", "firv-core", 15000000, timeout=7200), step("asan", "firv-core", 400000, timeout=7200)],
}
FLOORS["C18"] = {"quick": [
    (">= 10^8 components checked, kernels up to >= 4096 taps", lambda o: o["counters"]["components_checked"] >= 10 ** 8 and o["maxima"]["kernel_len_max"] >= 4096),
]}
FLOORS["C18"]["thorough"] = FLOORS["C18"]["quick"]

VIEW_ASSUME = ["back-ends are selected with the unsafe set_cpu_extensions on a host that supports SSE4.1 and AVX2",
               "NEON/WASM kernels are not executable on this host"]

PLANS["C03"] = {
    "rule": "hostile call sequences (1-6 calls on one Resizer): sizes 0..28 and strips to 300, hostile crop boxes (NaN, +-inf, negative, "
            "denormal, edge-flush, > image), every algorithm incl. SuperSampling multiplicity 0 and 255, 7 built-in and 17 custom kernels "
            "(lobes to +-50, supports 0.01-64, anti-symmetric, 1e300-scaled), all container pairs in exact-fit placement, alpha ops, "
            "mappers and change_type with mismatched arguments, reset/clone; judged by AddressSanitizer, the debug-assertion build, Miri "
            "(Tree Borrows) and the H1 invariant hook; a panic is tolerated only for a custom kernel whose H1 event shows sum|w| >= 4; "
            "sweep: coefficient windows of random geometries up to 65 535 per side checked without pixel data through the H2 accessor; "
            "after every call the surroundings of the destination view and the whole source backing store are compared with their sentinels "
            "(a stray write inside a parent allocation is invisible to a sanitizer); also run under this property's oracles: the C14 split "
            "workload (Miri sequential and interleaved, ASan), the C04 constructor workloads (ASan), short alpha rows through every entry "
            "point (Miri) and C02's residue-exhausting resize workload with exact-fit sources (ASan); "
            "non-trivial = every sequence / geometry (all are hostile by construction); distinct = distinct descriptor",
    "assumptions": VIEW_ASSUME + ["Miri's Tree Borrows is the aliasing model (Stacked Borrows rejects the sibling &mut band views although no byte is shared)",
                                  "resource exhaustion (allocation failure) is not a verdict; no case needs more than 64 MB"],
    "quick": [
        step("asan", "firv-views", 48000),
        step("dbg", "firv-views", 48000),
        step("rel", "firv-views", 100000, sub="sweep"),
        step("miri", "firv-views", 256, shards=16, timeout=3000),
        step("miri", "firv-views", 0, sub="splits", prop_arg="C14", shards=16, timeout=3000),
        step("miri", "firv-views", 0, sub="interleave", prop_arg="C14", shards=2, timeout=3000),
        step("miri", "firv-misc", 192, sub="small", prop_arg="C06", shards=16, timeout=3000),
        step("asan", "firv-views", 0, sub="quads", prop_arg="C04"),
        step("asan", "firv-views", 30000, sub="buffers", prop_arg="C04"),
        step("asan", "firv-views", 0, sub="splits", prop_arg="C14"),
        # the residue-exhausting generator of C02 (every pixel type x back-end x pass x window length x row residue, sources in
        # exact-fit allocations) under ASan: an over-read at the end of the last row changes no output and only a red zone sees it
        step("asan", "firv-core", 90000, prop_arg="C02"),
    ],
    "thorough": [
        step("asan", "firv-views", 1500000, timeout=10000),
        step("dbg", "firv-views", 1500000, timeout=10000),
        step("rel", "firv-views", 1500000, timeout=10000),
        step("rel", "firv-views", 4000000, sub="sweep", timeout=10000),
        step("miri", "firv-views", 3200, shards=16, timeout=20000),
        step("miri", "firv-views", 0, sub="splits", prop_arg="C14", shards=16, timeout=20000),
        step("miri", "firv-views", 0, sub="interleave", prop_arg="C14", shards=2, timeout=3000),
        step("miri", "firv-misc", 4800, sub="small", prop_arg="C06", shards=16, timeout=20000),
        step("asan", "firv-views", 0, sub="quads", prop_arg="C04"),
        step("asan", "firv-views", 600000, sub="buffers", prop_arg="C04"),
        step("asan", "firv-views", 0, sub="splits", prop_arg="C14", timeout=10000),
        step("asan", "firv-core", 2000000, prop_arg="C02", timeout=10000),
    ],
}
FLOORS["C03"] = {"quick": [
    (">= 10^5 API calls, >= 10^4 returned errors, >= 50 tolerated panics outside the envelope (the hostile kernels do bite)",
     lambda o: o["counters"]["api_calls"] >= 10 ** 5 and o["counters"]["returned_err"] >= 10 ** 4 and o["counters"]["panics_outside_envelope_tolerated"] >= 50),
    ("every compiled container pair used", lambda o: len(o["sets"]["container_pairs"]) >= 24),
    (">= 10^8 windows checked by the sweep", lambda o: o["counters"]["windows_checked"] >= 10 ** 8),
]}
FLOORS["C03"]["thorough"] = FLOORS["C03"]["quick"]

PLANS["C04"] = {
    "rule": "quads: exhaustive - every (left, top, width, height) in 0..=N+2 on every image 0..=N x 0..=N (N=6 quick, 9 thorough) through the "
            "six cropped-view constructors; boundary: pool {0,1,2,W-1,W,W+1,2^31,2^32-2,2^32-1,...}^4; f64crop: random f64 boxes from a hostile "
            "pool (NaN, +-inf, -0, negative, denormal, pred/succ of the edge, 1e300) through ResizeOptions::crop + resize; buffers: nine buffer "
            "constructors with lengths required-2..required+2, byte offsets 0..7, 13 pixel types and sizes near 2^16/2^31/2^32 over short "
            "buffers; oracle = exact integer predicate (TwoSum for f64), accepted views must expose exactly their rectangle of identity tags; "
            "an empty u32 box inside the image or on its edge must be accepted like any other; a zero-area f64 crop box makes resize "
            "return Ok early (documented) whatever its position, so either outcome is accepted there; non-trivial = every case",
    "assumptions": ["zero-area f64 crop boxes / empty buffers: either outcome is accepted (never a panic)"],
    "exhaustive": {"quick": True, "thorough": True},
    "quick": [step("rel", "firv-views", 0, sub="quads"), step("dbg", "firv-views", 0, sub="quads"),
              step("rel", "firv-views", 0, sub="boundary", shards=4), step("dbg", "firv-views", 0, sub="boundary", shards=4),
              step("rel", "firv-views", 200000, sub="f64crop"), step("dbg", "firv-views", 50000, sub="f64crop"),
              step("rel", "firv-views", 200000, sub="buffers"), step("dbg", "firv-views", 100000, sub="buffers")],
    "thorough": [step("rel", "firv-views", 0, sub="quads"), step("dbg", "firv-views", 0, sub="quads"),
                 step("rel", "firv-views", 0, sub="boundary", shards=4), step("dbg", "firv-views", 0, sub="boundary", shards=4),
                 step("rel", "firv-views", 24000000, sub="f64crop", timeout=7200), step("dbg", "firv-views", 3000000, sub="f64crop", timeout=7200),
                 step("rel", "firv-views", 24000000, sub="buffers", timeout=7200), step("dbg", "firv-views", 6000000, sub="buffers", timeout=7200)],
}
FLOORS["C04"] = {"quick": [
    (">= 10^6 constructor calls with both outcomes", lambda o: o["counters"]["constructor_calls"] >= 10 ** 6 and o["counters"]["accepted"] >= 10 ** 4 and o["counters"]["rejected"] >= 10 ** 4),
    (">= 10^5 quadruples near u32::MAX", lambda o: o["counters"]["quadruples_near_u32_max"] >= 10 ** 5),
    (">= 20000 f64 boxes inside and >= 20000 outside", lambda o: o["counters"]["boxes_inside"] >= 20000 and o["counters"]["boxes_outside"] >= 20000),
]}
FLOORS["C04"]["thorough"] = FLOORS["C04"]["quick"]

PLANS["C05"] = {
    "rule": "two-run sentinel differencing: the destination backing store (exact, oversized with spare rows and a partial row, or a parent "
            "with margins around a mutable cropped / nested view) is filled with pattern A, the call is made, refilled with the bitwise "
            "complement pattern B and the call repeated; inside the rectangle both results must be identical, outside every byte must hold "
            "its sentinel, the source must be unchanged, and after an error or with a zero dimension the destination must be untouched; "
            "operations: resize (all algorithms, SuperSampling m=1..4 and 255, crops), alpha mul/div two-image and in-place, mappers "
            "forward/backward/in-place, change_type dynamic and typed, all container pairs, three back-ends; threads step: the same under "
            "rayon pools of 1, 2, 3, 8 threads; non-trivial = every call; distinct = distinct descriptor",
    "assumptions": VIEW_ASSUME,
    "quick": [step("rel", "firv-views", 160000), step("asan", "firv-views", 32000), step("rel+rayon", "firv-views", 48000, sub="threads")],
    "thorough": [step("rel", "firv-views", 8000000, timeout=7200), step("asan", "firv-views", 1600000, timeout=7200),
                 step("rel+rayon", "firv-views", 2000000, sub="threads", timeout=7200)],
}
FLOORS["C05"] = {"quick": [
    (">= 10^7 destination pixels checked, >= 1000 erroring calls, >= 1000 zero-sized calls",
     lambda o: o["counters"]["destination_pixels_checked"] >= 10 ** 7 and o["counters"]["erroring_calls"] >= 1000 and o["counters"]["zero_sized_calls"] >= 1000),
    ("every compiled resize container pair, >= 20 alpha paths, >= 20 mapper paths, >= 20 change_type paths",
     lambda o: len(o["sets"]["resize_container_pairs"]) >= 24 and len(o["sets"]["alpha_paths"]) >= 20 and len(o["sets"]["mapper_paths"]) >= 20 and len(o["sets"]["change_type_paths"]) >= 20),
]}
FLOORS["C05"]["thorough"] = FLOORS["C05"]["quick"]

PLANS["C13"] = {
    "rule": "the same logical resize / alpha operation / sRGB mapping / component conversion is executed through plain images (reference) and through a random compiled "
            "container pair (13 source kinds incl. mutable cropped views in the source role and a user-defined view, 8 destination kinds, typed and dynamic entry points) at a random placement (parent margins "
            "0..3 on every side, spare rows, partial tail row, nested crops, buffers ending at the last pixel); destination pixels must be "
            "bit-identical; threads step: the container pair inside rayon pools of 2/3/4/8 threads (bands are made by splitting the views) "
            "against the plain pair in a 1-thread pool; non-trivial = every case; distinct = distinct descriptor",
    "assumptions": VIEW_ASSUME,
    "quick": [step("rel", "firv-views", 160000), step("asan", "firv-views", 32000), step("rel+rayon", "firv-views", 48000, sub="threads")],
    "thorough": [step("rel", "firv-views", 16000000, timeout=7200), step("asan", "firv-views", 3000000, timeout=7200), step("rel+rayon", "firv-views", 4000000, sub="threads", timeout=7200)],
}
FLOORS["C13"] = {"quick": [
    ("every compiled container pair, >= 20 alpha paths and all 12 mapping/conversion paths used", lambda o: len(o["sets"]["container_pairs"]) >= 24 and len(o["sets"]["alpha_paths"]) >= 20 and len(o["sets"]["map_change_paths"]) >= 12),
]}
FLOORS["C13"]["thorough"] = FLOORS["C13"]["quick"]

PLANS["C14"] = {
    "rule": "exhaustive: 9 view kinds (owned, slice over an oversized buffer, reference, cropped, nested-cropped, mutable cropped, nested "
            "mutable, and a user-defined view / mutable view that implement only the required trait methods so that every split is the trait's "
            "default implementation) x all view sizes 0..=N x 0..=N (N=12 quick, 34 thorough) x placements x both axes x every (start, size, parts) with "
            "start 0..=extent+1, size 1..=extent+1, parts 1..=size+1, plus values near u32::MAX and split-of-split; parts are read through "
            "ImageView (identity tags) and, for mutable views, written ((index+1)<<20 added) and read back through the parent: every band "
            "pixel incremented exactly once by the right part, nothing else changed; the extents of the parts must be floor or ceil of "
            "size/parts and add up to size (which parts are the bigger ones is not prescribed); compositions on mutable parts: every part of a "
            "mutable split is read through its ImageView side, split again read-only (both axes) and split again mutably (both axes, valid and "
            "invalid requests), the sub-parts adding 1<<20: every band pixel must end up incremented exactly twice; long step: 1xN and Nx1 views with N up to 100 000 "
            "split into up to N parts (extent x parts beyond 2^32); huge step: one U8 image of 65 536 x 65 544 pixels (> 2^32; 4.3 GB of lazily zeroed "
            "memory, a few pages touched) whose row and column bands are judged by the addresses of the rows the parts expose - skipped with a note "
            "if the host refuses the allocation; interleave step: sibling mutable parts used alternately "
            "row by row (also under Miri in C03); non-trivial = every (kind, size, placement); distinct = distinct descriptor",
    "assumptions": ["NonZeroU32 arguments make size = 0 and parts = 0 unrepresentable"],
    "exhaustive": {"quick": True, "thorough": True},
    "quick": [step("rel", "firv-views", 0, sub="splits"), step("dbg", "firv-views", 0, sub="splits"), step("rel", "firv-views", 0, sub="interleave"),
              step("rel", "firv-views", 0, sub="long"), step("dbg", "firv-views", 0, sub="long"),
              # one image of more than 2^32 pixels (lazily zeroed memory, parts judged by row addresses)
              step("rel", "firv-views", 0, sub="huge", shards=1), step("dbg", "firv-views", 0, sub="huge", shards=1)],
    "thorough": [step("rel", "firv-views", 0, sub="splits", timeout=7200), step("dbg", "firv-views", 0, sub="splits", timeout=14000),
                 step("rel", "firv-views", 0, sub="interleave", timeout=7200),
                 step("rel", "firv-views", 0, sub="long"), step("dbg", "firv-views", 0, sub="long"),
                 step("rel", "firv-views", 0, sub="huge", shards=1), step("dbg", "firv-views", 0, sub="huge", shards=1)],
}
FLOORS["C14"] = {"quick": [
    (">= 10^5 split calls with both outcomes, >= 10^5 mutable splits, >= 10^6 pixels read back through the parent",
     lambda o: o["counters"]["split_some"] >= 10 ** 4 and o["counters"]["split_none"] >= 10 ** 5 and o["counters"]["mut_split_calls"] >= 10 ** 5 and o["counters"]["pixels_read_back_through_parent"] >= 10 ** 6),
    (">= 500 splits of long thin views", lambda o: o["counters"]["long_splits"] >= 500),
]}
FLOORS["C14"]["thorough"] = FLOORS["C14"]["quick"]

PLANS["C06"] = {
    "rule": "u8: exhaustive - all 65 536 (colour, alpha) pairs shifted through every lane of rows of length 1..40, U8x2/U8x4, multiply and "
            "divide, 3 back-ends, 4 entry points; u16: all colours for 13 special alphas and vice versa plus random blocks of 65 536 pairs "
            "(quick) / all 2^32 pairs (thorough, sub u16full); f32: rows of special and random finite values; patterns: random colours with alphas in runs and blocks (wholly transparent / opaque / half-and-half groups of 2..16 pixels at every phase) on rows of length 1..=70; unsupported: the 7 non-alpha "
            "types must be rejected by all four entry points; oracle = exact integer arithmetic (multiply: round half up of c*a/max; divide: "
            "floor or ceil of c*max/a saturated at max, a=0 -> 0; alpha unchanged) and single IEEE operations for floats; "
            "non-trivial = every block; distinct = distinct block descriptor",
    "assumptions": ["NEON/WASM kernels are not executable on this host", "float inputs are finite (NaN is not generated)"],
    "exhaustive": {"quick": False, "thorough": True},
    "quick": [step("rel+rayon", "firv-misc", 64000, args=["--pool", "3"], tag="pool3", seed_offset=7000, sub="patterns"), step("rel", "firv-misc", 0, sub="u8", timeout=3000), step("rel", "firv-misc", 400, sub="u16"), step("rel", "firv-misc", 40000, sub="f32"),
              step("rel", "firv-misc", 0, sub="unsupported", shards=1), step("dbg", "firv-misc", 60, sub="u16"), step("asan", "firv-misc", 60, sub="u16"),
              step("asan", "firv-misc", 4000, sub="f32"), step("miri", "firv-misc", 192, sub="small", shards=16, timeout=3000),
              # rows of length 1..=70 whose alphas come in runs and blocks (uniform and half-uniform groups of 2..16 pixels at every phase)
              step("rel", "firv-misc", 200000, sub="patterns"), step("asan", "firv-misc", 20000, sub="patterns")],
    "thorough": [step("rel+rayon", "firv-misc", 2000000, args=["--pool", "3"], tag="pool3", seed_offset=7000, sub="patterns", timeout=7200), step("rel", "firv-misc", 0, sub="u8", timeout=7200), step("rel", "firv-misc", 4000, sub="u16", timeout=7200),
                 step("rel", "firv-misc", 20000000, sub="patterns", timeout=7200),
                 step("rel", "firv-misc", 0, sub="u16full", timeout=14000), step("rel", "firv-misc", 4000000, sub="f32", timeout=7200),
                 step("rel", "firv-misc", 0, sub="unsupported", shards=1), step("dbg", "firv-misc", 400, sub="u16", timeout=7200),
                 step("asan", "firv-misc", 0, sub="u8", timeout=14000), step("asan", "firv-misc", 400, sub="u16", timeout=7200)],
}
FLOORS["C06"] = {"quick": [
    (">= 10^9 pixels judged, >= 10^8 saturating divisions (colour > alpha)", lambda o: o["counters"]["pixels_judged"] >= 10 ** 9 and o["counters"]["saturating_divisions"] >= 10 ** 8),
    ("all 32 lane residues used in the 8-bit step", lambda o: len(o["sets"]["lanes_mod_32"]) == 32),
    ("alpha runs/blocks on rows of every length 1..=70", lambda o: len(o["sets"]["pattern_row_lengths"]) == 70),
]}
FLOORS["C06"]["thorough"] = FLOORS["C06"]["quick"]

PLANS["C09"] = {
    "rule": "random histories of 40-200 operations on one long-lived Resizer (and its clones): resizes mixing all 13 pixel types (pixel "
            "sizes 1..16), growing then shrinking sizes, alpha on/off, every algorithm, saturated contents, erroring calls, "
            "reset_internal_buffers, clone (both copies continue), back-end switches (set only when they change, so the selected back-end is "
            "part of the history), a quarter of the calls repeating the previous call with one thing changed (crop position, filter, "
            "algorithm, alpha flag, contents); every call's output is compared bit for bit with the same call on Resizer::new(); big step: histories of 7-11 calls with "
            "intermediate images of several MB (wide-to-tall and tall-to-wide), one alpha-aware resize of a 66-72 MB source (retained buffer beyond 64 MB), "
            "SuperSampling of a few hundred pixels per side, resets and clones in between; the H3 scratch hook proves reuse-without-growth, growth and (under Miri, where Vec<u8> is 1-aligned) "
            "misaligned-head paths were executed; non-trivial = every history; distinct = distinct history descriptor",
    "assumptions": CONV_ASSUME,
    "quick": [step("rel+rayon", "firv-misc", 640, args=["--pool", "4"], tag="pool4", seed_offset=7000), step("rel", "firv-misc", 3200), step("asan", "firv-misc", 640), step("miri", "firv-misc", 160, shards=16, timeout=3000),
              # histories with big images (intermediates of several MB, a retained buffer beyond 64 MB); few processes: ~400 MB each
              step("rel", "firv-misc", 48, sub="big", shards=4)],
    "thorough": [step("rel+rayon", "firv-misc", 16000, args=["--pool", "4"], tag="pool4", seed_offset=7000, timeout=7200), step("rel", "firv-misc", 160000, timeout=7200), step("asan", "firv-misc", 32000, timeout=7200),
                 step("rel", "firv-misc", 2000, sub="big", shards=4, timeout=7200),
                 step("miri", "firv-misc", 1600, shards=16, timeout=20000)],
}
FLOORS["C09"] = {"quick": [
    (">= 10^5 calls compared, scratch reuse without growth and growth both seen >= 1000 times, resets and clones >= 1000",
     lambda o: o["counters"]["calls_compared"] >= 10 ** 5 and o["counters"]["scratch_reused_bigger_than_needed"] >= 1000 and o["counters"]["scratch_grown"] >= 1000 and o["counters"]["resets"] >= 1000 and o["counters"]["clones"] >= 1000),
    ("misaligned scratch head (align_to_mut gap) observed", lambda o: o["counters"]["scratch_misaligned_head"] >= 1),
    ("all pixel sizes 1,2,3,4,6,8,12,16 seen", lambda o: len(o["sets"]["pixel_sizes"]) == 8),
]}
FLOORS["C09"]["thorough"] = FLOORS["C09"]["quick"]

PLANS["C15"] = {
    "rule": "exhaustive: all (src w, src h, dst w, dst h) in 1..=24 with 4 centerings; random: 10^7 (quick) / 2*10^10 (thorough) quadruples "
            "in 1..=65 535 biased to near-equal ratios (dst = k*src +- 1), centerings incl. 0, 0.5, 1, -3, 7, +-inf, 1-eps; the returned box "
            "must be inside the source as the validator judges it, have the destination aspect to 1e-12, span one dimension, and sit at the "
            "clamped centering of the margin; resize: fit_into_destination through Resizer::resize_typed and the dynamic Resizer::resize on identity-tagged images (every size "
            "quadruple in 1..=10 first, then random sizes to 700) never errors and "
            "gives exactly the result of an explicit crop() with the box fit_src_into_dst_size returns (so the option cannot place the box "
            "elsewhere); "
            "non-trivial = every block / case; distinct = distinct descriptor",
    "assumptions": ["NaN centering is excluded (property)"],
    "exhaustive": {"quick": False, "thorough": False},
    "quick": [step("rel", "firv-misc", 0, sub="exhaustive"), step("dbg", "firv-misc", 0, sub="exhaustive"),
              step("rel", "firv-misc", 10000000, sub="random"), step("dbg", "firv-misc", 1000000, sub="random"),
              step("rel", "firv-misc", 40000, sub="resize")],
    "thorough": [step("rel", "firv-misc", 0, sub="exhaustive"), step("dbg", "firv-misc", 0, sub="exhaustive"),
                 step("rel", "firv-misc", 20000000000, sub="random", timeout=7200), step("dbg", "firv-misc", 1000000000, sub="random", timeout=7200),
                 step("rel", "firv-misc", 2000000, sub="resize", timeout=7200)],
}
FLOORS["C15"] = {"quick": [
    (">= 10^7 function calls, >= 10^5 near-equal-ratio quadruples, >= 10^5 resize calls",
     lambda o: o["counters"]["function_calls"] >= 10 ** 7 and o["counters"]["near_equal_ratio_quadruples"] >= 10 ** 5 and o["counters"]["resize_calls"] >= 10 ** 5),
]}
FLOORS["C15"]["thorough"] = FLOORS["C15"]["quick"]

PLANS["C16"] = {
    "rule": "exhaustive: sRGB and gamma-2.2 mappers x forward/backward x 4 depth pairs x 1..4 components x two-image/in-place: every "
            "component value of the source depth at every component position, rows of width 1..9 so that alpha falls on every row position; "
            "oracle: table entry = round(f(v/max_in)*max_out) with f in f64 (a neighbour accepted within 1e-4*max_out of a rounding tie, "
            "tables are built in f32), monotone, 0->0, max->max, alpha = depth conversion, sRGB 8->16->8 identity; the two-image mappings also through cropped windows (CroppedImageMut / CroppedImage source at an "
            "off-diagonal position, CroppedImageMut destination) with identical results and an untouched parent; errors: all 169 type "
            "pairs x mismatched sizes must be rejected with the destination untouched; non-trivial = every combination",
    "assumptions": ["transfer functions as documented in src/color/mappers.rs (sRGB piecewise, gamma 2.2)"],
    "exhaustive": {"quick": True, "thorough": True},
    "quick": [step("rel", "firv-misc", 0, sub="tables"), step("rel", "firv-misc", 0, sub="errors", shards=2), step("dbg", "firv-misc", 0, sub="errors", shards=2)],
    "thorough": [step("rel", "firv-misc", 0, sub="tables"), step("dbg", "firv-misc", 0, sub="tables", timeout=7200), step("asan", "firv-misc", 0, sub="tables", timeout=7200),
                 step("rel", "firv-misc", 0, sub="errors", shards=2), step("dbg", "firv-misc", 0, sub="errors", shards=2)],
}
FLOORS["C16"] = {"quick": [
    (">= 5*10^7 components checked, 256 round-trip values, every alpha row position for widths 1..9",
     lambda o: o["counters"]["components_checked"] >= 5 * 10 ** 7 and o["counters"]["roundtrip_values_checked"] >= 256 and len(o["sets"]["alpha_row_positions"]) == 45),
]}
FLOORS["C16"]["thorough"] = FLOORS["C16"]["quick"]

PLANS["C17"] = {
    "rule": "all 43 supported (source, destination, component count) pairs: integer sources exhaustively (256 / 65 536 values), I32 and F32 "
            "sources with boundary values (min, max, +-0, +-inf, denormals, range ends +- 1 ulp) and 60 000 random values per block; oracle: "
            "monotone non-decreasing on the sorted inputs, nominal endpoints map to nominal endpoints, out-of-range floats saturate, NaN does "
            "not fail, widen-then-narrow is the identity, the same values in images 1..9 pixels wide (Image and ImageRef sources) and through cropped "
            "windows (CroppedImageMut / CroppedImage source, CroppedImageMut destination) convert identically; errors: all 169 pixel type pairs x mismatched sizes rejected, destination untouched; "
            "non-trivial = every (pair, block)",
    "assumptions": ["nominal ranges: U8 [0,255], U16 [0,65535], F32 [0,1] against unsigned and [-1,1] against I32, I32 [0,MAX] against unsigned and [MIN,MAX] against F32"],
    "exhaustive": {"quick": False, "thorough": False},
    "quick": [step("rel", "firv-misc", 34, sub="values"), step("dbg", "firv-misc", 8, sub="values"), step("rel", "firv-misc", 0, sub="errors", shards=2)],
    "thorough": [step("rel", "firv-misc", 20000, sub="values", timeout=7200), step("dbg", "firv-misc", 2000, sub="values", timeout=7200), step("rel", "firv-misc", 0, sub="errors", shards=2)],
}
FLOORS["C17"] = {"quick": [
    (">= 10^7 values converted, >= 10^6 round trips", lambda o: o["counters"]["values_converted"] >= 10 ** 7 and o["counters"]["round_trips"] >= 10 ** 6),
]}
FLOORS["C17"]["thorough"] = FLOORS["C17"]["quick"]

PLANS["C08"] = {
    "rule": "diff: resizes (13 pixel types, all algorithms, crops, destinations 40..260 per side so that bands exist) and alpha operations are "
            "run in a 1-thread pool and in pools of 2..32 threads (and more threads than rows/columns) with seeded spin/yield jitter at band "
            "starts (H4 hook), results compared bit for bit; strips: 1xN, Nx1, 2xN images with N in {255..257, 4095..4097, 65535..65537, 70000, "
            "92681, 92682, 131072, 300000} in pools of 2, 7, 32 threads; big: destinations of 4..9 MB with prime-ish extents (Nearest, Bilinear, Lanczos3, "
            "SuperSampling; up- and down-scaling, crops) in pools of 2, 3, 7 threads; parts: the band-count functions on 10^6 size pairs incl. 2^k, 2^k+-1 up "
            "to 2^32-1 (no panic); containers: cropped, nested and dynamic source/destination views in pools of 2/3/4/8 threads "
            "against plain images in a 1-thread pool (the C13 workload); thorough adds ThreadSanitizer; Miri (Tree Borrows + race detector) runs multi-band row "
            "scenarios (must be clean) and column scenarios (D13b known finding) and column scenarios with the borrow tracker off (must be "
            "clean: no real access overlaps); non-trivial = a run that was split into > 1 band; distinct = distinct descriptor",
    "assumptions": CONV_ASSUME + ["schedules come from the OS scheduler, jitter and Miri's seeded scheduler; no exhaustive interleaving search"],
    "quick": [step("rel+rayon", "firv-threads", 6400), step("dbg+rayon", "firv-threads", 960),
              step("rel+rayon", "firv-threads", 0, sub="strips"), step("dbg+rayon", "firv-threads", 0, sub="strips"),
              step("rel+rayon", "firv-threads", 1000000, sub="parts", shards=4), step("dbg+rayon", "firv-threads", 1000000, sub="parts", shards=4),
              # large frames (destinations of 4..9 MB, extents that no band count divides)
              step("rel+rayon", "firv-threads", 56, sub="big"),
              # bands of cropped / nested / dynamic containers: the C13 container workload in pools of 2/3/4/8 threads against 1 thread
              step("rel+rayon", "firv-views", 48000, sub="threads", prop_arg="C13"),
              step("miri+rayon", "firv-threads", 16, sub="miri_h", shards=16, timeout=3000),
              step("miri+rayon", "firv-threads", 4, sub="miri_v", shards=4, timeout=3000),
              step("miri+rayon", "firv-threads", 8, sub="miri_v", shards=8, timeout=3000, miriflags="-Zmiri-disable-stacked-borrows", tag="noborrow")],
    "thorough": [step("rel+rayon", "firv-threads", 200000, timeout=10000), step("dbg+rayon", "firv-threads", 20000, timeout=10000),
                 step("tsan+rayon", "firv-threads", 2000, timeout=10000),
                 step("rel+rayon", "firv-threads", 0, sub="strips"), step("dbg+rayon", "firv-threads", 0, sub="strips"), step("tsan+rayon", "firv-threads", 0, sub="strips", timeout=10000),
                 step("rel+rayon", "firv-threads", 100000000, sub="parts"), step("dbg+rayon", "firv-threads", 10000000, sub="parts"),
                 step("rel+rayon", "firv-threads", 1120, sub="big", timeout=7200),
                 step("rel+rayon", "firv-views", 1000000, sub="threads", prop_arg="C13", timeout=7200),
                 step("miri+rayon", "firv-threads", 160, sub="miri_h", shards=16, timeout=20000),
                 step("miri+rayon", "firv-threads", 4, sub="miri_v", shards=4, timeout=3000),
                 step("miri+rayon", "firv-threads", 160, sub="miri_v", shards=16, timeout=20000, miriflags="-Zmiri-disable-stacked-borrows", tag="noborrow")],
}
FLOORS["C08"] = {"quick": [
    (">= 10^4 multi-band splits, >= 10^5 bands, both axes and >= 12 distinct (axis, parts) splits, >= 100 distinct schedules",
     lambda o: o["counters"]["multi_band_splits"] >= 10 ** 4 and o["counters"]["bands_executed"] >= 10 ** 5 and len(o["sets"]["splits_axis_parts"]) >= 12
     and any(s.startswith("v") for s in o["sets"]["splits_axis_parts"]) and any(s.startswith("h") for s in o["sets"]["splits_axis_parts"]) and len(o["sets"]["schedules"]) >= 100),
    ("pool sizes 2..32 and beyond seen (>= 20 distinct)", lambda o: len(o["sets"]["pool_sizes"]) >= 20),
    (">= 50 large frames (destination >= 4 MB)", lambda o: o["counters"]["big_frame_cases"] >= 50 and o["maxima"]["big_frame_dst_bytes"] >= 4.2e6),
    ("all 14 strip lengths incl. 65536 and beyond", lambda o: len([s for s in o["sets"]["strip_lengths"] if int(s) >= 255]) >= 14),
    (">= 10^6 size pairs through the band-count functions, >= 10^5 with area beyond u32", lambda o: o["counters"]["size_pairs"] >= 10 ** 6 and o["counters"]["pairs_with_area_beyond_u32"] >= 10 ** 5),
]}
FLOORS["C08"]["thorough"] = FLOORS["C08"]["quick"]

# Pool steps (tag "poolN"): the same monitor, other random cases, with the library's rayon code running in a global pool of N threads.
# Results are specified independently of the thread count, so every oracle applies unchanged; destinations of about 32x32 and more
# are split into bands.
for _p in ("C01", "C02", "C06", "C07", "C09", "C10", "C11", "C12", "C18"):
    PLANS[_p]["rule"] += ("; pool step: the same workload (other random cases) in a build with the rayon feature and a global pool of "
                          "2-5 threads - the oracle is unchanged, because the result is specified independently of the thread count")
