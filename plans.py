"""Per-property execution plans: which binary, which build flavours, how many cases, which observation floors.

A step is {flavour, bin, n, [sub], [shards], [args], [env], [timeout], [miriflags]}.
n is the total number of cases of the step (split over its shards).
"""


def step(flavour, bin, n, **kw):
    d = {"flavour": flavour, "bin": bin, "n": n}
    d.update(kw)
    return d


PLANS = {}
FLOORS = {}

PLANS["C01"] = {
    "rule": "stratified (pixel type x pass direction x dst extent 1..40 x kernel length 1..24) then seeded random "
            "resize cases (13 pixel types, 7 filters x Convolution/Interpolation/SuperSampling, valid crops of every "
            "kind, contents random/extreme/checkerboard/impulse), each run on back-ends None/Sse4_1/Avx2 and compared "
            "per sample with the f64 reference model and its analytic bound; non-trivial = a convolution with a kernel "
            "of >= 2 taps is executed on at least one axis; distinct = distinct case descriptor",
    "assumptions": ["the f64 reference model in harness/src/refmodel.rs states the ideal filter of the property",
                    "NEON/WASM kernels are not executable on this host"],
    "quick": [step("rel", "firv-core", 300000), step("asan", "firv-core", 30000), step("dbg", "firv-core", 30000)],
    "thorough": [step("rel", "firv-core", 1000000, timeout=7200), step("asan", "firv-core", 60000, timeout=7200),
                 step("dbg", "firv-core", 60000, timeout=7200)],
}
FLOORS["C01"] = {
    "quick": [
        ("all 8 residues of kernel length mod 8 observed by the pass hook", lambda o: len(o["sets"]["observed_window_len_mod8"]) == 8),
        (">= 6 distinct u8 precisions and >= 8 distinct u16 precisions observed", lambda o: len(o["sets"]["precisions_u8"]) >= 6 and len(o["sets"]["precisions_u16"]) >= 8),
        (">= 50000 two-pass cases", lambda o: o["counters"]["two_pass_cases"] >= 50000),
        ("worst error/bound ratio >= 0.9 for every component kind (the bound is attained, it has no slack)",
         lambda o: all(o["maxima"]["worst_error_over_bound_" + k] >= 0.9 for k in ("u8", "u16", "i32", "f32"))),
    ],
}
FLOORS["C01"]["thorough"] = FLOORS["C01"]["quick"]

CONV_ASSUME = ["NEON/WASM kernels are not executable on this host", "back-ends are selected with the unsafe set_cpu_extensions on a host that supports SSE4.1 and AVX2"]

PLANS["C02"] = {
    "rule": "resize: stratified + random cases (13 pixel types, built-in and custom filters, alpha on/off, crops) executed on "
            "None/Sse4_1/Avx2 and compared component by component (integers bit-equal, U16x2/U16x4 alpha-on colours +-1, floats "
            "2 ulp of the summed magnitude); cases whose H1 event shows a window with sum|w| >= 4 are skipped and counted; "
            "muldiv: alpha multiply/divide of rows of every length 1..70 and random lengths, in-place and two-image; "
            "non-trivial = at least one convolution pass ran (resize) / any row (muldiv); distinct = distinct descriptor",
    "assumptions": CONV_ASSUME,
    "quick": [step("rel", "firv-core", 160000), step("rel", "firv-core", 60000, sub="muldiv")],
    "thorough": [step("rel", "firv-core", 3000000, timeout=7200), step("rel", "firv-core", 1000000, sub="muldiv", timeout=7200),
                 step("asan", "firv-core", 100000, timeout=7200)],
}


def _c02_floor(o):
    need = []
    for pt in ["U8", "U8x2", "U8x3", "U8x4", "U16", "U16x2", "U16x3", "U16x4", "I32", "F32", "F32x2", "F32x3", "F32x4"]:
        for d in "hv":
            if len(o["sets"].get("%s_%s_len_mod8" % (pt, d), [])) < 8 or len(o["sets"].get("%s_%s_rows_mod4" % (pt, d), [])) < 4:
                need.append(pt + d)
    return not need


FLOORS["C02"] = {"quick": [
    ("every pixel type x pass direction saw all 8 classes of window length mod 8 and all 4 classes of rows mod 4 (H1 events)", _c02_floor),
    (">= 6 distinct u8 precisions and >= 10 distinct u16 precisions (H1 events)", lambda o: len(o["sets"]["precisions_u8"]) >= 6 and len(o["sets"]["precisions_u16"]) >= 10),
    ("every alpha pixel type saw all 16 classes of row length mod 16 in the muldiv step", lambda o: all(len(o["sets"]["%s_row_len_mod16" % p]) == 16 for p in ["U8x2", "U8x4", "U16x2", "U16x4", "F32x2", "F32x4"])),
]}
FLOORS["C02"]["thorough"] = FLOORS["C02"]["quick"]

PLANS["C07"] = {
    "rule": "random resize cases on the six alpha pixel types (transparent stripes, islands, borders, single pixels, all-zero, low alpha) "
            "with alpha handling on; each run three times per back-end: source A, source B = A with other colours under alpha = 0, and A "
            "with alpha handling off; relations (i) A==B results, (ii) zero alpha => zero colour, (iii) opaque source == alpha-off, "
            "(iv) alpha channel == plain resampling, (v) non-alpha types unaffected; non-trivial = source has both transparent and "
            "non-transparent pixels; geometries where dst size == integer crop (C12: exact copy) are excluded and counted",
    "assumptions": CONV_ASSUME + ["colours under zero alpha are finite (NaN*0 is NaN in any implementation)"],
    "quick": [step("rel", "firv-core", 120000)],
    "thorough": [step("rel", "firv-core", 3000000, timeout=7200), step("asan", "firv-core", 100000, timeout=7200)],
}
FLOORS["C07"] = {"quick": [
    (">= 10000 cases with partial transparency, >= 1000 opaque cases, >= 10^5 zero-alpha destination pixels",
     lambda o: o["counters"]["cases_with_partial_transparency"] >= 10000 and o["counters"]["opaque_cases"] >= 1000 and o["counters"]["zero_alpha_dst_pixels"] >= 100000),
]}
FLOORS["C07"]["thorough"] = FLOORS["C07"]["quick"]

PLANS["C10"] = {
    "rule": "constant images (all 256 values for 8-bit in turn; extremes, mid, random for wider types; alpha at maximum when alpha "
            "handling is on) resized with random geometry, every fourth case a strip with an extreme scale (kernel lengths up to "
            "65 000 explored, verdict only for <= 8192 taps); every destination component must equal the constant (floats: 1 ulp); "
            "non-trivial = kernel of >= 2 taps inside the verdict domain",
    "assumptions": CONV_ASSUME,
    "quick": [step("rel", "firv-core", 160000)],
    "thorough": [step("rel", "firv-core", 4000000, timeout=7200)],
}
FLOORS["C10"] = {"quick": [
    ("all 256 8-bit values used", lambda o: len(o["sets"]["u8_values"]) == 256),
    ("kernel lengths judged up to >= 4096 taps, every power-of-two class 1..4096 seen",
     lambda o: o["maxima"]["kernel_len_max_judged"] >= 4096 and len(o["sets"]["kernel_len_log2"]) >= 13),
]}
FLOORS["C10"]["thorough"] = FLOORS["C10"]["quick"]

PLANS["C11"] = {
    "rule": "identity-tagged sources (neighbouring pixels always differ) resized with Nearest: random sizes, strips, valid crops of every "
            "kind, every eighth case a sub-pixel crop flush against the right/bottom edge, 1x1 sources, alpha handling on for alpha types; "
            "each destination pixel must be bit-identical to the source pixel under its centre (either neighbour when the centre is within "
            "4(n+2) ulp of an integer); non-trivial = destination size differs from the crop size",
    "assumptions": CONV_ASSUME,
    "quick": [step("rel", "firv-core", 160000), step("asan", "firv-core", 16000), step("miri", "firv-core", 320, shards=16, timeout=3000)],
    "thorough": [step("rel", "firv-core", 4000000, timeout=7200), step("asan", "firv-core", 400000, timeout=7200),
                 step("miri", "firv-core", 3200, shards=16, timeout=14000)],
}
FLOORS["C11"] = {"quick": [
    (">= 5000 sub-pixel edge-flush cases", lambda o: o["counters"]["subpixel_edge_flush_cases"] >= 5000),
    (">= 10^7 pixels checked", lambda o: o["counters"]["pixels_checked"] >= 10 ** 7),
]}
FLOORS["C11"]["thorough"] = FLOORS["C11"]["quick"]

PLANS["C12"] = {
    "rule": "four modes in turn: same size as an integer crop (every algorithm incl. Nearest, alpha on/off) must be a bit-exact copy; rows "
            "match / columns match: each row (column) of the result must equal the resize of that row (column) alone; SuperSampling whose "
            "intermediate has the destination size must equal the nearest-neighbour picks (alpha channel only when alpha handling is on); "
            "every case is non-trivial; distinct = distinct descriptor",
    "assumptions": CONV_ASSUME,
    "quick": [step("rel", "firv-core", 120000)],
    "thorough": [step("rel", "firv-core", 3000000, timeout=7200)],
}
FLOORS["C12"] = {"quick": [
    (">= 10000 cases of each of the four modes", lambda o: all(o["counters"][k] >= 10000 for k in ("same_size", "rows_match", "columns_match", "supersampling_identity"))),
    ("all four algorithm kinds seen", lambda o: all(any(a.startswith(k) for a in o["sets"]["algorithms"]) for k in ("Nearest", "Conv", "Interp", "Super"))),
]}
FLOORS["C12"]["thorough"] = FLOORS["C12"]["quick"]

PLANS["C18"] = {
    "rule": "random images A and B = A + non-negative increments (saturating), value ranges anywhere in the component range, resized "
            "with Box/Bilinear/Hamming/Gaussian x Convolution/Interpolation/SuperSampling, alpha off, kernel lengths <= 8192; every "
            "destination component must lie in the source channel's [min,max] and resize(A) <= resize(B) componentwise (floats: 1 ulp); "
            "non-trivial = kernel of >= 2 taps",
    "assumptions": CONV_ASSUME,
    "quick": [step("rel", "firv-core", 120000)],
    "thorough": [step("rel", "firv-core", 3000000, timeout=7200)],
}
FLOORS["C18"] = {"quick": [
    (">= 10^8 components checked, kernels up to >= 4096 taps", lambda o: o["counters"]["components_checked"] >= 10 ** 8 and o["maxima"]["kernel_len_max"] >= 4096),
]}
FLOORS["C18"]["thorough"] = FLOORS["C18"]["quick"]
