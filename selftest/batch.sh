#!/bin/bash
# selftest/batch.sh <results file> <seed dir> [<seed dir> ...]   (seed dir = .../<PROP>/mutN with patch.diff, demo.rs, meta.json)
res=$1; shift
for dir in "$@"; do
  prop=$(python3 -c "import json,sys; print(json.load(open('$dir/meta.json'))['property'])")
  name=$prop-$(basename $dir)
  feats=""
  grep -q "rayon" "$dir/demo.rs" && feats="--features rayon"
  /verif/selftest/confirm.sh "$dir" "$feats" 2>&1 | grep "^CONFIRM" >> "$res"
  /verif/selftest/mutant.sh "$name" "$dir/patch.diff" $prop 2>&1 | grep "^$name " >> "$res"
done
echo "BATCH DONE $*" >> "$res"
