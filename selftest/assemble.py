#!/usr/bin/env python3
"""Collect the confirmed seeded changes into /verif/seeded/<id>/ and write selftest/results.txt + a markdown table.

  selftest/assemble.py <seed_out dir>[,<seed_out dir>...] <results files...>
"""
import glob
import json
import os
import re
import shutil
import sys

ROOT = os.path.dirname(os.path.dirname(os.path.abspath(__file__)))
seed_out = sys.argv[1]
lines = []
for f in sys.argv[2:]:
    if os.path.exists(f):
        lines += open(f).read().splitlines()

confirm = {}
detect = {}
for l in lines:
    m = re.match(r"CONFIRM (C\d+)/(mut\d): demo_on_pristine_rc=(\d+) build_rc=(\d+) demo_on_mutant_rc=(\d+) (\d+) of (\d+) stable", l)
    if m:
        confirm[(m.group(1), m.group(2))] = {"demo_on_pristine_rc": int(m.group(3)), "build_rc": int(m.group(4)), "demo_on_mutant_rc": int(m.group(5)),
                                            "stable_baseline_tests_passing": int(m.group(6)), "stable_baseline_tests": int(m.group(7))}
        continue
    m = re.match(r"(\S+) (C\d+) (DETECTED|MISSED|INCONCLUSIVE) rc=(\d+) nviol=(\d+) ?(.*)", l)
    if m:
        detect.setdefault(m.group(1), []).append({"check": m.group(2), "verdict": m.group(3), "first_violation": m.group(6).strip()[:300]})

rows = []
os.makedirs(os.path.join(ROOT, "seeded"), exist_ok=True)
seed_dirs = []
for so in seed_out.split(","):
    seed_dirs += [x for x in glob.glob(os.path.join(so, "C*", "mut[0-9]")) if os.path.isdir(x)]
for d in sorted(seed_dirs, key=lambda x: x.split("/")[-2:]):
    prop, mut = d.split("/")[-2:]
    c = confirm.get((prop, mut))
    name = "%s-%s" % (prop, mut)
    det = detect.get(name, []) + detect.get(name + "x", [])
    meta = json.load(open(os.path.join(d, "meta.json")))
    ok = c and c["demo_on_pristine_rc"] == 0 and c["build_rc"] == 0 and c["demo_on_mutant_rc"] != 0 and c["stable_baseline_tests_passing"] == c["stable_baseline_tests"]
    if not ok:
        rows.append((name, meta.get("summary", "")[:90], "not confirmed: %r" % (c,), ""))
        continue
    out = os.path.join(ROOT, "seeded", name)
    os.makedirs(out, exist_ok=True)
    shutil.copy(os.path.join(d, "patch.diff"), out)
    shutil.copy(os.path.join(d, "demo.rs"), out)
    meta["breaks_property"] = prop
    meta["confirmed_here"] = c
    meta["what_was_run"] = [
        "selftest/confirm.sh %s  (scratch worktree of /repo: demo on pristine tree, git apply, cargo build, demo with the change, cargo test --workspace against BASELINE.json's stable list)" % d,
        "selftest/mutant.sh %s %s/patch.diff %s  (scratch copy of /verif with repo-link -> patched scratch worktree; the registered quick command)" % (name, d, prop),
    ]
    meta["checks_run_against_it"] = det
    json.dump(meta, open(os.path.join(out, "meta.json"), "w"), indent=1)
    # verdict per check: the last run of each check counts (a check may have been strengthened and re-run)
    per = {}
    for x in det:
        per[x["check"]] = x
    verdicts = ", ".join("%s %s" % (k, v["verdict"]) for k, v in sorted(per.items())) or "not run"
    firsts = []
    for k, v in sorted(per.items()):
        kind = re.search(r"replay=\S+\s+(\S+) \[(\S+)\]", v.get("first_violation", ""))
        if kind:
            firsts.append("%s: %s [%s]" % (k, kind.group(1), kind.group(2)))
    history = [x for x in det if x["verdict"] == "MISSED"]
    note = " (missed before the check was strengthened)" if history and any(v["verdict"] == "DETECTED" for v in per.values()) and any(h["check"] in per and per[h["check"]]["verdict"] == "DETECTED" for h in history) else ""
    rows.append((name, meta.get("needs", "")[:160].replace("\n", " ").replace("|", "/"), verdicts + note, "; ".join(firsts)))

with open(os.path.join(ROOT, "selftest", "results.txt"), "w") as f:
    f.write("\n".join(lines) + "\n")
with open(os.path.join(ROOT, "selftest", "seeded_table.md"), "w") as f:
    f.write("| mutant | needs | verdict of ./check <property> | first oracle that fired |\n|---|---|---|---|\n")
    for r in rows:
        f.write("| %s | %s | %s | %s |\n" % r)
for r in rows:
    print(r[0], r[2], r[3])
