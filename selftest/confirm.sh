#!/bin/bash
# Confirm a seeded change independently in a scratch worktree:
#   the demo passes on the pristine tree, the patch applies and builds, the demo fails with it,
#   and the repository's stable baseline tests still pass with it.
#   selftest/confirm.sh <dir with patch.diff, demo.rs> [cargo test feature args, e.g. "--features rayon"]
set -u
src=$(readlink -f "$1"); feats=${2:-}
d=$(mktemp -d /tmp/cf.XXXXXX)
cleanup() { git -C /repo worktree remove --force "$d/repo" >/dev/null 2>&1; rm -rf "$d"; git -C /repo worktree prune; }
trap cleanup EXIT
git -C /repo worktree add -q --detach "$d/repo" HEAD || exit 3
cp -r /repo/target "$d/repo/target"
cd "$d/repo"
cp "$src/demo.rs" tests/seed_demo.rs
cargo test --offline $feats --test seed_demo > "$d/pristine.log" 2>&1; rc0=$?
git apply "$src/patch.diff" || { echo "CONFIRM $1 patch does not apply"; exit 1; }
cargo build --offline $feats > "$d/build.log" 2>&1; rcb=$?
cargo test --offline $feats --test seed_demo > "$d/mutant.log" 2>&1; rc1=$?
rm tests/seed_demo.rs
cargo test --workspace --no-fail-fast --offline > "$d/suite.log" 2>&1
python3 - "$d/suite.log" <<'PY' > "$d/suite.txt"
import json, re, sys
base = json.load(open('/root/.vp/BASELINE.json'))
stable = set(n.split('::', 1)[1] if n.startswith(('fast_image_resize::', 'resizer::')) else n for n in base['stable_pass'])
log = open(sys.argv[1]).read()
# map "Running tests/x.rs" sections to test names
results = {}
section = ''
for line in log.splitlines():
    m = re.match(r'\s+Running (unittests )?(\S+)', line)
    if m:
        f = m.group(2)
        section = 'bin/resizer' if 'main.rs' in f else ('' if f == 'src/lib.rs' else re.sub(r'^tests/|\.rs$', '', f))
        continue
    m = re.match(r'test (\S+) \.\.\. (\w+)', line)
    if m:
        name = (section + '::' if section else '') + m.group(1)
        results[name] = m.group(2)
missing = [n for n in stable if results.get(n) != 'ok']
print(len(stable) - len(missing), 'of', len(stable), 'stable baseline tests pass;', 'NOT passing:', missing[:10])
PY
echo "CONFIRM $(basename $(dirname $src))/$(basename $src): demo_on_pristine_rc=$rc0 build_rc=$rcb demo_on_mutant_rc=$rc1 $(cat $d/suite.txt)"
grep -E "panicked|assert|FAILED" "$d/mutant.log" | head -3
