#!/usr/bin/env python3
"""Which lines of /repo/src do the registered workloads actually execute?

  selftest/coverage.py [--scale K] [--tier quick] [PROP ...]

Builds the harness with `-Cinstrument-coverage` (nightly, release; its own target dirs target-cov, target-cov-rayon),
runs the native steps (rel / asan / dbg / rel+rayon / dbg+rayon) of the chosen properties' plans with their case budget
divided by K (default 4), merges the profiles and writes
  selftest/coverage/<PROP>.txt     per-file line coverage of the library reached by that property's workload
  selftest/coverage/ALL.txt        the union over all chosen properties
  selftest/coverage/ALL.uncovered  functions of the library never entered, lines never executed (per file)
This is a measurement aid for deciding where workloads need widening; it is not a check (no verdict).
Miri / TSan steps are not measured (same generators, smaller budgets).
"""
import importlib.machinery
import importlib.util
import json
import os
import re
import subprocess
import sys
import concurrent.futures as cf

ROOT = os.path.dirname(os.path.dirname(os.path.abspath(__file__)))
loader = importlib.machinery.SourceFileLoader("check_driver", os.path.join(ROOT, "check"))
spec = importlib.util.spec_from_loader("check_driver", loader)
chk = importlib.util.module_from_spec(spec)
loader.exec_module(chk)

SYSROOT = subprocess.run(["rustc", "+nightly", "--print", "sysroot"], stdout=subprocess.PIPE, text=True).stdout.strip()
LLVM = os.path.join(SYSROOT, "lib", "rustlib", "x86_64-unknown-linux-gnu", "bin")
OUT = os.path.join(ROOT, "selftest", "coverage")
WORK = os.path.join(ROOT, "work", "cov")


def cov_spec(rayon):
    tdir = os.path.join(ROOT, "target-cov" + ("-rayon" if rayon else ""))
    env = dict(chk.BASE_ENV)
    env["RUSTFLAGS"] = "--cfg fir_verif -Cinstrument-coverage"
    # build scripts and proc macros are instrumented too and would drop default_*.profraw into their package directory (/repo)
    env["LLVM_PROFILE_FILE"] = os.path.join(WORK, "build-%p.profraw")
    argv = ["cargo", "+nightly", "build", "--release"] + (["--features", "rayon"] if rayon else [])
    return argv, env, tdir, os.path.join(tdir, "release")


def build(rayon, bins):
    argv, env, tdir, bindir = cov_spec(rayon)
    cmd = argv + sum((["--bin", b] for b in bins), []) + ["--target-dir", tdir]
    r = subprocess.run(cmd, cwd=chk.HARNESS, env=env, stdout=subprocess.PIPE, stderr=subprocess.STDOUT, text=True)
    if r.returncode != 0:
        print(r.stdout[-4000:])
        raise SystemExit("coverage build failed")
    return bindir


def run_one(cmd, env):
    r = subprocess.run(cmd, cwd=ROOT, env=env, stdout=subprocess.PIPE, stderr=subprocess.PIPE, text=True, errors="replace")
    return r.returncode


def main():
    a = sys.argv[1:]
    scale = 4
    tier = "quick"
    if "--scale" in a:
        i = a.index("--scale"); scale = int(a[i + 1]); del a[i:i + 2]
    if "--tier" in a:
        i = a.index("--tier"); tier = a[i + 1]; del a[i:i + 2]
    props = a or sorted(chk.PLANS)
    os.makedirs(OUT, exist_ok=True)
    os.makedirs(WORK, exist_ok=True)
    need = {False: set(), True: set()}
    for p in props:
        for s in chk.PLANS[p][tier]:
            fl = s["flavour"]
            if fl.split("+")[0] in ("rel", "dbg", "asan"):
                need[fl.endswith("+rayon")].add(s["bin"])
    bindirs = {}
    for rayon, bins in need.items():
        if bins:
            print("build cov%s %s" % ("+rayon" if rayon else "", ",".join(sorted(bins))), flush=True)
            bindirs[rayon] = build(rayon, sorted(bins))
    objects = set()
    all_profiles = []
    for p in props:
        jobs = []
        seen_steps = set()
        for s in chk.PLANS[p][tier]:
            fl = s["flavour"]
            if fl.split("+")[0] not in ("rel", "dbg", "asan"):
                continue
            rayon = fl.endswith("+rayon")
            key = (s["bin"], s.get("sub"), s.get("prop_arg", p), rayon, tuple(map(str, s.get("args", []))), json.dumps(s.get("env", {}), sort_keys=True))
            if key in seen_steps:
                continue
            seen_steps.add(key)
            n = max(16, s["n"] // scale)
            exe = os.path.join(bindirs[rayon], s["bin"])
            objects.add(exe)
            ns = 16
            for i in range(ns):
                out = os.path.join(WORK, "%s-%s-%s-%d.json" % (p, s["bin"], s.get("sub", "main"), i))
                args = ["--prop", s.get("prop_arg", p), "--tier", tier, "--seed", "1", "--shard", "%d/%d" % (i, ns),
                        "--flavour", "rel+rayon" if rayon else "rel", "--n", str(n), "--out", out]
                if s.get("sub"):
                    args += ["--sub", s["sub"]]
                args += [str(x) for x in s.get("args", [])]
                env = dict(chk.BASE_ENV)
                env.update(s.get("env", {}))
                env["LLVM_PROFILE_FILE"] = os.path.join(WORK, "%s-%%p-%%m.profraw" % p)
                jobs.append(([exe] + args, env))
        for f in os.listdir(WORK):
            if f.startswith(p + "-") and f.endswith(".profraw"):
                os.remove(os.path.join(WORK, f))
        with cf.ThreadPoolExecutor(max_workers=16) as ex:
            rcs = list(ex.map(lambda j: run_one(*j), jobs))
        raws = [os.path.join(WORK, f) for f in os.listdir(WORK) if f.startswith(p + "-") and f.endswith(".profraw")]
        prof = os.path.join(WORK, p + ".profdata")
        subprocess.run([os.path.join(LLVM, "llvm-profdata"), "merge", "-sparse", "-o", prof] + raws, check=True)
        for r in raws:
            os.remove(r)
        all_profiles.append(prof)
        report(prof, sorted(objects), os.path.join(OUT, p + ".txt"))
        print("%s: %d processes (non-zero exits: %d) -> %s" % (p, len(jobs), sum(1 for r in rcs if r), p + ".txt"), flush=True)
    if "--report-only" in sys.argv:
        pass
    allp = os.path.join(WORK, "ALL.profdata")
    subprocess.run([os.path.join(LLVM, "llvm-profdata"), "merge", "-sparse", "-o", allp] + all_profiles, check=True)
    report(allp, sorted(objects), os.path.join(OUT, "ALL.txt"))
    uncovered(allp, sorted(objects), os.path.join(OUT, "ALL.uncovered"))


def objs_args(objects):
    a = [objects[0]]
    for o in objects[1:]:
        a += ["-object", o]
    return a


def report(prof, objects, path):
    r = subprocess.run([os.path.join(LLVM, "llvm-cov"), "report", "-instr-profile", prof] + objs_args(objects) +
                       ["-ignore-filename-regex", r"(/\.cargo/|/rustc/|harness/src|verif_hooks)"],
                       stdout=subprocess.PIPE, stderr=subprocess.PIPE, text=True)
    lines = []
    for l in r.stdout.splitlines():
        l = re.sub(r"^(/repo|/?verif/repo-link)/src/", "", l)
        lines.append(l)
    open(path, "w").write("\n".join(lines) + "\n")


def uncovered(prof, objects, path):
    r = subprocess.run([os.path.join(LLVM, "llvm-cov"), "export", "-format=lcov", "-instr-profile", prof] + objs_args(objects) +
                       ["-ignore-filename-regex", r"(/\.cargo/|/rustc/|harness/src|verif_hooks)"],
                       stdout=subprocess.PIPE, stderr=subprocess.PIPE, text=True)
    out = []
    cur = None
    fns, fnhit, miss = {}, {}, []
    for l in r.stdout.splitlines():
        if l.startswith("SF:"):
            cur = l[3:]
            fns, fnhit, miss = {}, {}, []
        elif l.startswith("FN:"):
            ln, name = l[3:].split(",", 1)
            fns[name] = int(ln.split(",")[0])
        elif l.startswith("FNDA:"):
            c, name = l[5:].split(",", 1)
            fnhit[name] = fnhit.get(name, 0) + int(c)
        elif l.startswith("DA:"):
            ln, c = l[3:].split(",")[:2]
            if int(c) == 0:
                miss.append(int(ln))
        elif l == "end_of_record" and cur and re.match(r"^(/repo|/verif/repo-link)/src/", cur):
            cur = re.sub(r"^(/repo|/verif/repo-link)/src/", "/repo/src/", cur)
            # generic functions appear once per instantiation: a source line is entered if any instantiation was
            by_line = {}
            for name, ln in fns.items():
                by_line[ln] = by_line.get(ln, 0) + fnhit.get(name, 0)
            dead = sorted(ln for ln, c in by_line.items() if c == 0)
            if dead or miss:
                out.append("%s\n   functions never entered (line): %s\n   lines never executed: %s" % (
                    cur[len("/repo/src/"):], dead, ranges(sorted(set(miss)))))
    open(path, "w").write("\n".join(out) + "\n")


def ranges(xs):
    res = []
    for x in xs:
        if res and x == res[-1][1] + 1:
            res[-1][1] = x
        else:
            res.append([x, x])
    return ", ".join("%d" % a if a == b else "%d-%d" % (a, b) for a, b in res)


if __name__ == "__main__":
    main()
