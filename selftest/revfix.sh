#!/bin/bash
# selftest/revfix.sh <results file> <list file: name -R:<commit> PROP...>
res=$1
while read -r name patch props; do
  [ -z "$name" ] && continue
  FIRST_FLAVOURS=${FIRST_FLAVOURS:-rel,rel+rayon} /verif/selftest/mutant.sh "$name" "$patch" $props 2>&1 | grep "^$name " >> "$res"
done < "$2"
echo "REVFIX DONE" >> "$res"
