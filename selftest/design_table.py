#!/usr/bin/env python3
"""Rewrite the seeded-changes table of DESIGN.md (section 5.1) from selftest/seeded_table.md."""
import os, re
ROOT = os.path.dirname(os.path.dirname(os.path.abspath(__file__)))
rows = []
for l in open(os.path.join(ROOT, "selftest", "seeded_table.md")).read().splitlines()[2:]:
    c = [x.strip() for x in l.strip().strip("|").split("|")]
    if len(c) >= 4:
        rows.append((c[0], c[2], c[3]))
table = "| mutant | verdict of the registered quick command(s) | first oracle that fired |\n|---|---|---|\n" + "\n".join("| %s | %s | %s |" % r for r in rows) + "\n"
p = os.path.join(ROOT, "DESIGN.md")
s = open(p).read()
i = s.index("| mutant | verdict of the registered quick command(s) | first oracle that fired |")
j = s.index("**Reverse of every `fix:` commit")
s = s[:i] + table + "\n" + s[j:]
open(p, "w").write(s)
print(len(rows), "rows")
