#!/bin/bash
# Run quick checks against a mutated copy of the library, in a scratch copy of /verif.
#   selftest/mutant.sh <name> <patch.diff | -R:<commit>> <PROP> [<PROP> ...]
# Prints one line per property: "<name> <PROP> DETECTED|MISSED|INCONCLUSIVE rc=<n> <first violation line>"
# The scratch directory (worktree + build output) is removed at the end.
set -u
name=$1; patch=$2; shift 2
d=$(mktemp -d /tmp/st.XXXXXX)
cleanup() { git -C /repo worktree remove --force "$d/repo" >/dev/null 2>&1; rm -rf "$d"; git -C /repo worktree prune; }
trap cleanup EXIT
git -C /repo worktree add -q --detach "$d/repo" HEAD || exit 3
if [[ "$patch" == -R:* ]]; then
  git -C /repo show "${patch#-R:}" | git -C "$d/repo" apply -R || { echo "$name ALL PATCH-FAILED"; exit 3; }
else
  git -C "$d/repo" apply "$patch" || { echo "$name ALL PATCH-FAILED"; exit 3; }
fi
mkdir -p "$d/verif"
rsync -a --exclude 'target-*' --exclude work --exclude replays --exclude evidence --exclude .git --exclude seeded /verif/ "$d/verif/"
ln -sfn "$d/repo" "$d/verif/repo-link"
# warm dependency caches (the library and the harness are rebuilt anyway: their paths differ)
for t in /verif/target-*; do case "$t" in *cov*|*tsan*) continue;; esac; [ -d "$t" ] && cp -r "$t" "$d/verif/" ; done
cd "$d/verif"
for prop in "$@"; do
  # first the cheap flavours; the full plan only if they miss
  out=$(VERIF_SEED=${VERIF_SEED:-1} VERIF_FLAVOURS=${FIRST_FLAVOURS:-rel,rel+rayon} ./check "$prop" --tier quick 2>&1); rc=$?
  if [ $rc -ne 1 ]; then
    out=$(VERIF_SEED=${VERIF_SEED:-1} ./check "$prop" --tier quick 2>&1); rc=$?
  fi
  viol=$(echo "$out" | grep -A1 "^VIOLATION property=$prop " | head -2 | tr '\n' ' ' | cut -c1-400)
  inc=$(echo "$out" | grep "^INCONCLUSIVE" | head -1 | cut -c1-300)
  nv=$(echo "$out" | grep -c "^VIOLATION property=$prop ")
  if [ $rc -eq 1 ] && [ "$nv" -gt 0 ]; then verdict=DETECTED; elif [ $rc -eq 2 ]; then verdict=INCONCLUSIVE; else verdict=MISSED; fi
  echo "$name $prop $verdict rc=$rc nviol=$nv $viol $inc"
done
